use std::time::Duration;
use kira::{
	backend::mock::{MockBackend, MockBackendSettings},
	clock::{ClockSpeed, ClockTime},
	effect::{distortion::DistortionBuilder, delay::DelayBuilder, Effect, EffectBuilder},
	info::MockInfoBuilder,
	sound::static_sound::{StaticSoundData, StaticSoundSettings},
	track::{TrackBuilder, MainTrackBuilder},
	AudioManager, AudioManagerSettings, Capacities, Decibels, Frame, StartTime, Tween,
};

fn dc(n: usize) -> StaticSoundData {
	StaticSoundData { sample_rate: 1, frames: (0..n).map(|_| Frame::from_mono(0.5)).collect(), settings: StaticSoundSettings::default(), slice: None }
}

#[test]
fn cap0_add_sub_track() {
	let r = std::panic::catch_unwind(|| {
		let mut m = AudioManager::<MockBackend>::new(AudioManagerSettings { capacities: Capacities { sub_track_capacity: 0, ..Default::default() }, ..Default::default() }).unwrap();
		m.add_sub_track(TrackBuilder::new()).is_err()
	});
	println!("cap0 add_sub_track: {:?}", r.map_err(|_| "PANIC"));
}

#[test]
fn track_state_after_missing_clock() {
	let mut m = AudioManager::<MockBackend>::new(AudioManagerSettings::default()).unwrap();
	let clock = m.add_clock(ClockSpeed::TicksPerSecond(1.0)).unwrap();
	let t = clock.time() + 1u64;
	let mut track = m.add_sub_track(TrackBuilder::new()).unwrap();
	m.backend_mut().on_start_processing();
	m.backend_mut().process();
	track.pause(Tween::default());
	m.backend_mut().on_start_processing();
	m.backend_mut().process();
	track.resume_at(StartTime::ClockTime(t), Tween::default());
	drop(clock);
	m.backend_mut().on_start_processing();
	m.backend_mut().process();
	m.backend_mut().on_start_processing();
	m.backend_mut().process();
	let r = std::panic::catch_unwind(std::panic::AssertUnwindSafe(|| track.state()));
	println!("track.state(): {:?}", r.map_err(|_| "PANIC"));
}

#[test]
fn distortion_minus60() {
	let (mut e, _h) = DistortionBuilder::new().drive(Decibels(-60.0)).build();
	e.init(48000, 4);
	let mut buf = [Frame::from_mono(0.25); 2];
	e.process(&mut buf, 1.0 / 48000.0, &MockInfoBuilder::new().build());
	println!("distortion -60dB: {:?}", buf);
}

#[test]
fn delay_zero() {
	let r = std::panic::catch_unwind(|| {
		let (mut e, _h) = DelayBuilder::new().delay_time(Duration::ZERO).build();
		e.init(48000, 4);
		let mut buf = [Frame::from_mono(0.25); 2];
		e.process(&mut buf, 1.0 / 48000.0, &MockInfoBuilder::new().build());
		buf
	});
	println!("delay zero: {:?}", r.map_err(|_| "PANIC"));
}

#[test]
fn huge_volume_nan() {
	let mut m = AudioManager::<MockBackend>::new(AudioManagerSettings { internal_buffer_size: 2, ..Default::default() }).unwrap();
	let data = StaticSoundData { sample_rate: 1, frames: (0..4).map(|_| Frame::ZERO).collect(), settings: StaticSoundSettings::default().volume(Decibels(1000.0)), slice: None };
	let _s = m.play(data).unwrap();
	m.backend_mut().on_start_processing();
	m.backend_mut().process();
	println!("amp(1000dB) = {}", Decibels(1000.0).as_amplitude());
}

#[test]
fn time_sub_u64() {
	let mut b = MockInfoBuilder::new();
	let id = b.add_clock(true, 0, 0.0);
	let t = ClockTime { clock: id, ticks: 1, fraction: 0.0 };
	let r = std::panic::catch_unwind(|| t - 2u64);
	println!("time - 2u64: {:?}", r.map_err(|_| "PANIC"));
}

#[test]
fn empty_loop_region_hangs() {
	let (tx, rx) = std::sync::mpsc::channel();
	std::thread::spawn(move || {
		let mut m = AudioManager::<MockBackend>::new(AudioManagerSettings { internal_buffer_size: 8, ..Default::default() }).unwrap();
		let _s = m.play(dc(6).loop_region(2.0..2.0)).unwrap();
		m.backend_mut().on_start_processing();
		m.backend_mut().process();
		tx.send(()).ok();
	});
	println!("empty loop region: {:?}", rx.recv_timeout(Duration::from_secs(3)).map_err(|_| "HANG or PANIC"));
}

#[test]
fn inverted_loop_region() {
	let (tx, rx) = std::sync::mpsc::channel();
	std::thread::spawn(move || {
		let mut m = AudioManager::<MockBackend>::new(AudioManagerSettings { internal_buffer_size: 8, ..Default::default() }).unwrap();
		let _s = m.play(dc(6).loop_region(4.0..2.0)).unwrap();
		m.backend_mut().on_start_processing();
		m.backend_mut().process();
		tx.send(()).ok();
	});
	println!("inverted loop region: {:?}", rx.recv_timeout(Duration::from_secs(3)).map_err(|_| "HANG or PANIC"));
}

#[test]
fn reverse_empty_sound() {
	let r = std::panic::catch_unwind(|| {
		let mut m = AudioManager::<MockBackend>::new(AudioManagerSettings::default()).unwrap();
		let _s = m.play(dc(0).reverse(true)).unwrap();
	});
	println!("reverse empty: {:?}", r.map_err(|_| "PANIC"));
}

#[test]
fn huge_playback_rate_hangs() {
	let (tx, rx) = std::sync::mpsc::channel();
	std::thread::spawn(move || {
		let mut m = AudioManager::<MockBackend>::new(AudioManagerSettings { internal_buffer_size: 8, ..Default::default() }).unwrap();
		let _s = m.play(dc(6).loop_region(0.0..).playback_rate(1e18)).unwrap();
		m.backend_mut().on_start_processing();
		m.backend_mut().process();
		tx.send(()).ok();
	});
	println!("huge playback rate: {:?}", rx.recv_timeout(Duration::from_secs(3)).map_err(|_| "HANG or PANIC"));
}

#[test]
fn self_clock_speed_tween() {
	let mut m = AudioManager::<MockBackend>::new(AudioManagerSettings { internal_buffer_size: 1, ..Default::default() }).unwrap();
	let mut clock = m.add_clock(ClockSpeed::TicksPerSecond(1.0)).unwrap();
	let t = clock.time() + 2u64;
	clock.set_speed(ClockSpeed::TicksPerSecond(10.0), Tween { start_time: StartTime::ClockTime(t), duration: Duration::ZERO, ..Default::default() });
	clock.start();
	for _ in 0..6 {
		m.backend_mut().on_start_processing();
		m.backend_mut().process();
	}
	m.backend_mut().on_start_processing();
	println!("self-scheduled speed tween: time after 6 s = {:?} (expected ~ 2 + 4*10 = 42 ticks if the tween fired at tick 2)", clock.time());
}
