// @append src/playback_state_manager.rs
// helper (no harness): a PlaybackStateManager forced into a given state, with the fade the
// representation invariant of c03_psm.rs associates with it
impl PlaybackStateManager {
	pub(crate) fn kv_forced(state: PlaybackState, wait: StartTime) -> Self {
		let silent = Parameter::new(Value::Fixed(Decibels::SILENCE), Decibels::SILENCE);
		let unity = Parameter::new(Value::Fixed(Decibels::IDENTITY), Decibels::IDENTITY);
		let tw = Tween { start_time: StartTime::Immediate, duration: std::time::Duration::from_millis(250), easing: crate::Easing::Linear };
		match state {
			PlaybackState::Playing => Self { state: State::Playing, volume_fade: unity },
			PlaybackState::Paused => Self { state: State::Paused, volume_fade: silent },
			PlaybackState::WaitingToResume => Self { state: State::WaitingToResume { start_time: wait, fade_in_tween: tw }, volume_fade: silent },
			PlaybackState::Stopped => Self { state: State::Stopped, volume_fade: silent },
			PlaybackState::Pausing => { let mut f = unity; f.set(Value::Fixed(Decibels::SILENCE), tw); Self { state: State::Pausing, volume_fade: f } }
			PlaybackState::Stopping => { let mut f = unity; f.set(Value::Fixed(Decibels::SILENCE), tw); Self { state: State::Stopping, volume_fade: f } }
			PlaybackState::Resuming => { let mut f = silent; f.set(Value::Fixed(Decibels::IDENTITY), tw); Self { state: State::Resuming, volume_fade: f } }
		}
	}
}
