// @append src/track/main.rs
// C07 (pick-up order), C08 (slot accounting on a failed play) on the REAL MainTrack / MainTrackHandle.
use crate::sound::SoundData;

struct KvFlagSound;
static mut KV_STARTED: u32 = 0;
static mut KV_PROCESSED: u32 = 0;
static mut KV_STARTED_BEFORE_FIRST_PROCESS: bool = false;
impl Sound for KvFlagSound {
	fn on_start_processing(&mut self) { unsafe { KV_STARTED += 1; } }
	fn process(&mut self, out: &mut [Frame], _dt: f64, _info: &Info) {
		unsafe { if KV_PROCESSED == 0 { KV_STARTED_BEFORE_FIRST_PROCESS = KV_STARTED > 0; } KV_PROCESSED += 1; }
		out.fill(Frame::ZERO);
	}
	fn finished(&self) -> bool { false }
}

struct KvData { fail: bool }
impl SoundData for KvData {
	type Error = ();
	type Handle = ();
	fn into_sound(self) -> Result<(Box<dyn Sound>, ()), ()> { if self.fail { Err(()) } else { Ok((Box::new(KvFlagSound), ())) } }
}

// @h prop=C07 tier=quick kind=main timeout=600
// @bounds real MainTrack + MainTrackHandle (capacity 1): a sound handed over by play(), then ONE callback (on_start_processing + process of one frame)
// @funcs MainTrackHandle::play, MainTrack::{on_start_processing,process}, ResourceStorage::remove_and_add, ResourceController::insert
// @catches a newly played sound being rendered in its first callback WITHOUT having received on_start_processing (commands written before pick-up are then applied one callback late)
#[kani::proof]
#[kani::unwind(3)]
fn c07_new_sound_gets_its_commands_in_the_pickup_callback() {
	let (mut track, mut handle) = MainTrackBuilder::new().sound_capacity(1).build(1);
	let r = handle.play(KvData { fail: false });
	assert!(r.is_ok());
	track.on_start_processing();
	let clocks: atomic_arena::Arena<crate::clock::Clock> = atomic_arena::Arena::new(0);
	let modulators: atomic_arena::Arena<Box<dyn crate::modulator::Modulator>> = atomic_arena::Arena::new(0);
	let listeners: atomic_arena::Arena<crate::listener::Listener> = atomic_arena::Arena::new(0);
	let info = Info::new(&clocks, &modulators, &listeners, None);
	let mut out = [Frame::ZERO; 1];
	track.process(&mut out, 0.25, &info);
	unsafe {
		assert!(KV_PROCESSED == 1, "the sound is picked up and rendered in the callback after play()");
		assert!(KV_STARTED == 1 && KV_STARTED_BEFORE_FIRST_PROCESS, "and it drains its commands (on_start_processing) in that same callback, before it is first rendered");
	}
	kani::cover!(true, "w:reached");
	std::mem::forget(track); std::mem::forget(handle); std::mem::forget(clocks); std::mem::forget(modulators); std::mem::forget(listeners);
}

// @h prop=C08 tier=quick kind=main timeout=600
// @bounds real MainTrackHandle of capacity 1: play() of a SoundData whose into_sound fails (symbolic), then play() of a good one
// @funcs MainTrackHandle::{play,num_sounds,sound_capacity}, ResourceController::{insert,try_reserve,len}
// @catches a slot reserved before into_sound() and leaked when it fails: the count then includes sounds that never existed and the track fills up with nothing alive
#[kani::proof]
#[kani::unwind(3)]
fn c08_failed_play_does_not_leak_a_slot() {
	let (track, mut handle) = MainTrackBuilder::new().sound_capacity(1).build(1);
	let fail: bool = kani::any();
	let r = handle.play(KvData { fail });
	assert!(r.is_err() == fail);
	assert!(handle.num_sounds() == if fail { 0 } else { 1 }, "the reported count equals created minus removed: a failed play creates nothing");
	let r2 = handle.play(KvData { fail: false });
	assert!(r2.is_ok() == fail, "creation succeeds exactly when fewer than capacity are alive");
	assert!(handle.num_sounds() == 1 && handle.num_sounds() <= handle.sound_capacity());
	kani::cover!(fail, "w:failed-first");
	std::mem::forget(track); std::mem::forget(handle); std::mem::forget(r); std::mem::forget(r2);
}

// ---- C02: the main track's own sum ------------------------------------------------------------------
struct KvVal { v: f32 }
impl Sound for KvVal {
	fn process(&mut self, out: &mut [Frame], _dt: f64, _info: &Info) { out.fill(Frame::new(self.v, -self.v)); }
	fn finished(&self) -> bool { false }
}

// @h prop=C02 tier=quick kind=main timeout=600
// @bounds real MainTrack with two probe sounds (symbolic small-integer DC levels) placed in its arena, volume 0 dB or -60 dB (symbolic); one chunk of 2 frames into a bus that already carries a symbolic small-integer signal (the sub-tracks' sum)
// @funcs MainTrack::process
// @catches the main track overwriting instead of adding to the bus; a sound mixed twice; scratch not cleared between sounds; main volume skipped or applied to the sounds only
// @requires kv_main_track_peek.rs
#[kani::proof]
#[kani::unwind(4)]
fn c02_main_track_adds_its_sounds_to_the_bus_then_applies_its_volume() {
	let sm = || { let v: i8 = kani::any(); kani::assume(v >= -4 && v <= 4); v as f32 };
	let (a, b, bus) = (sm(), sm(), sm());
	let silent: bool = kani::any();
	let mut builder = MainTrackBuilder::new().sound_capacity(2);
	builder.volume = crate::Value::Fixed(if silent { Decibels::SILENCE } else { Decibels::IDENTITY });
	let (mut track, handle) = builder.build(2);
	track.kv_place_sound(Box::new(KvVal { v: a }));
	track.kv_place_sound(Box::new(KvVal { v: b }));
	let clocks: atomic_arena::Arena<crate::clock::Clock> = atomic_arena::Arena::new(0);
	let modulators: atomic_arena::Arena<Box<dyn crate::modulator::Modulator>> = atomic_arena::Arena::new(0);
	let listeners: atomic_arena::Arena<crate::listener::Listener> = atomic_arena::Arena::new(0);
	let info = Info::new(&clocks, &modulators, &listeners, None);
	let mut out = [Frame::new(bus, bus); 2];
	track.process(&mut out, 0.25, &info);
	let want_l = if silent { 0.0 } else { bus + a + b };
	let want_r = if silent { 0.0 } else { bus - a - b };
	assert!(out[0].left == want_l && out[0].right == want_r && out[1].left == want_l && out[1].right == want_r,
		"main output = (what the other tracks put on the bus + the main track's own sounds) x the main volume");
	assert!(track.temp_buffer[0] == Frame::ZERO && track.temp_buffer[1] == Frame::ZERO, "scratch buffer left zero");
	kani::cover!(!silent && bus != 0.0 && a != 0.0, "w:audible");
	std::mem::forget(track); std::mem::forget(handle); std::mem::forget(clocks); std::mem::forget(modulators); std::mem::forget(listeners);
}

// powf spy: records the exponent Decibels::as_amplitude hands to powf (it is only called between -60 dB and 0 dB exclusive)
static mut KV_POW_SAW_HALF_WAY: bool = false;
fn kv_powf_spy(base: f32, e: f32) -> f32 {
	if base == 10.0 && e == -1.5 { unsafe { KV_POW_SAW_HALF_WAY = true; } return 0.031622777; }
	if e == 0.0 { return 1.0; } // 10^0, should an implementation not special-case 0 dB
	0.5
}

// @h prop=C02,C11 tier=quick kind=main timeout=600
// @bounds real MainTrack (no sounds) whose volume tween from -60 dB arrives at exactly 0 dB at the END of this chunk of 2 frames; bus carries a symbolic small-integer signal. Native replay: frame 0 = bus x 10^(-30/20) within 1e-6, frame 1 = bus
// @funcs MainTrack::process, Parameter::<Decibels>::{update,interpolated_value}, Decibels::as_amplitude
// @assume f32::powf replaced by a recording stand-in returning the native value of 10^-1.5
// @catches the per-frame volume ramp being skipped when the chunk's FINAL volume is 0 dB (an "identity volume" shortcut that looks at the end value only): the last chunk of any fade to 0 dB would jump to full level
#[kani::proof]
#[kani::unwind(4)]
#[kani::stub(f32::powf, kv_powf_spy)]
fn c02_main_track_volume_ramp_into_0_db_is_applied_per_frame() {
	let sm = || { let v: i8 = kani::any(); kani::assume(v >= -4 && v <= 4 && v != 0); v as f32 };
	let bus = sm();
	let mut builder = MainTrackBuilder::new().sound_capacity(0);
	builder.volume = crate::Value::Fixed(Decibels::SILENCE);
	let (mut track, handle) = builder.build(2);
	track.volume.set(crate::Value::Fixed(Decibels::IDENTITY), crate::Tween { start_time: crate::StartTime::Immediate, duration: std::time::Duration::from_millis(500), easing: crate::Easing::Linear });
	let clocks: atomic_arena::Arena<crate::clock::Clock> = atomic_arena::Arena::new(0);
	let modulators: atomic_arena::Arena<Box<dyn crate::modulator::Modulator>> = atomic_arena::Arena::new(0);
	let listeners: atomic_arena::Arena<crate::listener::Listener> = atomic_arena::Arena::new(0);
	let info = Info::new(&clocks, &modulators, &listeners, None);
	let mut out = [Frame::new(bus, bus); 2];
	track.process(&mut out, 0.25, &info);
	if cfg!(kv_native) {
		assert!((out[0].left - bus * 0.031622777).abs() <= 1e-6 && out[1].left == bus, "native: half-way through the ramp the gain is -30 dB, at its end 0 dB");
		return;
	}
	unsafe {
		assert!(KV_POW_SAW_HALF_WAY, "frame 0 is scaled by the volume half-way through the chunk (-30 dB)");
	}
	assert!(out[0].left == bus * 0.031622777 && out[1].left == bus && out[1].right == bus);
	kani::cover!(bus == 2.0, "witness");
	std::mem::forget(track); std::mem::forget(handle); std::mem::forget(clocks); std::mem::forget(modulators); std::mem::forget(listeners);
}
