// @append src/effect/compressor.rs
// C13 / C14: compressor: silence, and signals below the threshold, from a zero envelope.
include!(concat!(env!("KV_HARNESS_DIR"), "/lib/libm.rs"));
use crate::Value;
use atomic_arena::Arena;

fn kv_compressor(mix: f32) -> Compressor {
	let (w, r) = command_writers_and_readers();
	std::mem::forget(w);
	let mut c = Compressor::new(CompressorBuilder::new(), r);
	c.mix = Parameter::new(Value::Fixed(Mix(mix)), Mix(1.0));
	c
}

// @h prop=C13,C14 tier=quick kind=main timeout=600
// @bounds default compressor (threshold/ratio/attack/release defaults, makeup 0 dB), zero envelope; fully wet or fully dry (symbolic); one frame: silence, or any finite level whose log10-level is at or below the threshold
// @funcs Compressor::process
// @assume contract stubs: log10 (log10(0) = -inf, monotone), exp (in [0,1] for arguments <= 0), powf (pow(10,0) = 1)
// @catches a signal below the threshold being changed; silence producing NaN (log10(0) = -inf through the envelope follower); dry path altered
#[kani::proof]
#[kani::unwind(4)]
#[kani::stub(f32::log10, kv_log10f32)]
#[kani::stub(f64::exp, kv_exp64)]
#[kani::stub(f32::powf, kv_powf32)]
fn c13_compressor_below_threshold_is_transparent() {
	let wet: bool = kani::any();
	let x: f32 = kani::any();
	kani::assume(x.is_finite() && x.abs() <= 1.0);
	let mut fx = kv_compressor(if wet { 1.0 } else { 0.0 });
	let threshold = fx.threshold.value() as f32;
	// the harness's own view of the level (same memoised log10): below or at the threshold
	let level = 20.0 * x.abs().log10();
	kani::assume(level <= threshold);
	let c: Arena<crate::clock::Clock> = Arena::new(0);
	let m: Arena<Box<dyn crate::modulator::Modulator>> = Arena::new(0);
	let l: Arena<crate::listener::Listener> = Arena::new(0);
	let info = Info::new(&c, &m, &l, None);
	let mut buf = [Frame::from_mono(x)];
	fx.process(&mut buf, 1.0 / 48000.0, &info);
	assert!(buf[0].left == x && buf[0].right == x, "a signal below the threshold (and silence) passes unchanged, wet or dry");
	assert!(fx.envelope_follower[0] == 0.0 && fx.envelope_follower[1] == 0.0, "and leaves the envelope at rest");
	kani::cover!(x == 0.0 && wet, "w:silence-wet");
	kani::cover!(x != 0.0 && wet, "w:quiet-signal-wet");
	std::mem::forget(fx); std::mem::forget(c); std::mem::forget(m); std::mem::forget(l);
}

// exp spy: records the arguments the envelope follower hands to exp()
static mut KV_EXP_ARGS: [f64; 4] = [0.0; 4];
static mut KV_EXP_N: usize = 0;
fn kv_exp64_spy(x: f64) -> f64 {
	unsafe { if KV_EXP_N < 4 { KV_EXP_ARGS[KV_EXP_N] = x; } KV_EXP_N += 1; }
	kv_exp64(x)
}

fn kv_close(a: f64, b: f64) -> bool { (a - b).abs() <= 1e-9 * b.abs() }

// @h prop=C13,C14 tier=quick kind=main timeout=600
// @bounds default compressor (attack 10 ms, release 100 ms), envelope anywhere between 6 and 100 dB per channel; ONE chunk of TWO frames of any level between 0.25 and 1; dt = 1/48000 s. Native replay: the same chunk processed as one chunk of two and as two chunks of one must agree to 1e-6
// @funcs Compressor::process
// @assume exp replaced by a recording contract stub; log10 / powf contract stubs
// @catches the envelope's attack / release speed depending on the chunk length (time constants must be per FRAME: the argument of exp is -dt/duration with the per-frame dt for every frame of a chunk), a time constant other than the configured attack / release durations
#[kani::proof]
#[kani::unwind(6)]
#[kani::stub(f32::log10, kv_log10f32)]
#[kani::stub(f64::exp, kv_exp64_spy)]
#[kani::stub(f32::powf, kv_powf32)]
fn c13_compressor_envelope_speed_is_per_frame() {
	let x: [f32; 2] = kani::any();
	let e: [f32; 2] = kani::any();
	kani::assume(x[0].is_finite() && x[0].abs() <= 1.0 && x[1].is_finite() && x[1].abs() <= 1.0);
	// audible input and a charged envelope: the native replay has no spy and compares outputs, which depend on the
	// envelope speed only if the envelope moves and the signal is not (nearly) silent
	kani::assume(x[0].abs() >= 0.25 && x[1].abs() >= 0.25);
	kani::assume(e[0] >= 6.0 && e[0] <= 100.0 && e[1] >= 6.0 && e[1] <= 100.0);
	let dt = 1.0 / 48000.0;
	let c: Arena<crate::clock::Clock> = Arena::new(0);
	let m: Arena<Box<dyn crate::modulator::Modulator>> = Arena::new(0);
	let l: Arena<crate::listener::Listener> = Arena::new(0);
	let info = Info::new(&c, &m, &l, None);
	if cfg!(kv_native) {
		let mut a = kv_compressor(1.0); a.envelope_follower = e;
		a.threshold = Parameter::new(Value::Fixed(-40.0), -40.0); a.ratio = Parameter::new(Value::Fixed(4.0), 4.0);
		let mut b = kv_compressor(1.0); b.envelope_follower = e;
		b.threshold = Parameter::new(Value::Fixed(-40.0), -40.0); b.ratio = Parameter::new(Value::Fixed(4.0), 4.0);
		let mut one = [Frame::from_mono(x[0]), Frame::from_mono(x[1])];
		a.process(&mut one, dt, &info);
		let mut f0 = [Frame::from_mono(x[0])];
		let mut f1 = [Frame::from_mono(x[1])];
		b.process(&mut f0, dt, &info);
		b.process(&mut f1, dt, &info);
		assert!((one[0].left - f0[0].left).abs() <= 1e-6 && (one[1].left - f1[0].left).abs() <= 1e-6, "native: the output does not depend on how the signal is cut into chunks");
		return;
	}
	let mut fx = kv_compressor(1.0);
	fx.envelope_follower = e;
	let mut buf = [Frame::from_mono(x[0]), Frame::from_mono(x[1])];
	fx.process(&mut buf, dt, &info);
	let attack = -1.0 / (0.010 / dt);
	let release = -1.0 / (0.100 / dt);
	unsafe {
		// however often and in whatever order the speeds are computed (per frame and channel today), each one is
		// exp(-dt/attack) or exp(-dt/release) with the PER-FRAME dt
		assert!(KV_EXP_N >= 1, "the envelope follower takes its speed from exp()");
		let mut i = 0;
		while i < 4 && i < KV_EXP_N {
			let a = KV_EXP_ARGS[i];
			assert!(kv_close(a, attack) || kv_close(a, release), "exp(-dt/duration) with the per-frame dt, whatever the chunk length");
			i += 1;
		}
	}
	kani::cover!(e[0] > 0.0 && x[0] != 0.0, "witness");
	std::mem::forget(fx); std::mem::forget(c); std::mem::forget(m); std::mem::forget(l);
}
