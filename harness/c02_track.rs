// @append src/track/sub.rs
// @requires kv_psm_force.rs
// @requires kv_send_track_peek.rs
// C02 / C12 / C16: scenes over the REAL Track::process / should_be_removed / on_change_sample_rate
// with probe sounds and probe effects (public traits). Signals are small integers, gains are 0 dB
// or -60 dB (amplitude exactly 1 / 0), so every sum and product is exact and equality is bit equality.

use crate::backend::resources::ResourceController;
use crate::command::command_writer_and_reader;
use crate::effect::Effect as EffectTrait;
use crate::sound::{PlaybackState, Sound as SoundTrait};
use crate::track::TrackPlaybackState;
use crate::Value;
use std::time::Duration;

struct KvSound { vals: [f32; 4], pos: usize }
static mut KV_SOUND_CALLS: [usize; 2] = [0; 2]; // calls per probe sound (tag = vals[3] as index 0/1)
static mut KV_SOUND_MAXLEN: usize = 0;
impl SoundTrait for KvSound {
	fn process(&mut self, out: &mut [Frame], _dt: f64, _info: &Info) {
		unsafe { KV_SOUND_CALLS[self.vals[3] as usize] += 1; if out.len() > KV_SOUND_MAXLEN { KV_SOUND_MAXLEN = out.len(); } }
		let mut i = 0;
		while i < out.len() { out[i] = Frame::new(self.vals[self.pos % 3], -self.vals[self.pos % 3]); self.pos += 1; i += 1; }
	}
	fn finished(&self) -> bool { false }
}

/// probe effect: x -> x*mul + add on both channels; logs the order in which effects run and the rate it was told
struct KvEffect { mul: f32, add: f32, tag: u8 }
static mut KV_FX_ORDER: [u8; 4] = [0; 4];
static mut KV_FX_N: usize = 0;
static mut KV_FX_RATE: [u32; 4] = [0; 4];
static mut KV_FX_INIT: [u32; 4] = [0; 4];
impl EffectTrait for KvEffect {
	fn init(&mut self, sample_rate: u32, _internal_buffer_size: usize) { unsafe { KV_FX_INIT[self.tag as usize] = sample_rate; } }
	fn on_change_sample_rate(&mut self, sample_rate: u32) { unsafe { KV_FX_RATE[self.tag as usize] = sample_rate; } }
	fn process(&mut self, input: &mut [Frame], _dt: f64, _info: &Info) {
		unsafe { if KV_FX_N < 4 { KV_FX_ORDER[KV_FX_N] = self.tag; KV_FX_N += 1; } }
		let mut i = 0;
		while i < input.len() { input[i] = Frame::new(input[i].left * self.mul + self.add, input[i].right * self.mul + self.add); i += 1; }
	}
}

fn kv_small() -> f32 { let v: i8 = kani::any(); kani::assume(v >= -4 && v <= 4); v as f32 }
fn kv_gain(silent: bool) -> Decibels { if silent { Decibels::SILENCE } else { Decibels::IDENTITY } }

struct KvWorld { clocks: Clocks, modulators: Modulators, listeners: Listeners }
fn kv_world() -> KvWorld {
	// the controllers are forgotten, not dropped: dropping them runs the ring buffers' drop loops
	let (clocks, a) = Clocks::new(0); let (modulators, b) = Modulators::new(0); let (listeners, c) = Listeners::new(0);
	std::mem::forget(a); std::mem::forget(b); std::mem::forget(c);
	KvWorld { clocks, modulators, listeners }
}

fn kv_track(n_sounds: usize, effects: Vec<Box<dyn EffectTrait>>, sends: Vec<(SendTrackId, SendTrackRoute)>, volume: Decibels, buffer: usize) -> Track {
	let (sounds, sc) = ResourceStorage::new(n_sounds);
	let (sub_tracks, tc) = ResourceStorage::new(0);
	let (cw, command_readers) = command_writers_and_readers();
	std::mem::forget(sc); std::mem::forget(tc); std::mem::forget(cw);
	Track {
		shared: Arc::new(TrackShared::new()),
		command_readers,
		volume: Parameter::new(Value::Fixed(volume), Decibels::IDENTITY),
		sounds,
		sub_tracks,
		effects,
		sends,
		persist_until_sounds_finish: false,
		spatial_data: None,
		playback_state_manager: PlaybackStateManager::new(None),
		temp_buffer: vec![Frame::ZERO; buffer],
		internal_buffer_size: buffer,
	}
}
fn kv_place(track: &mut Track, s: KvSound) {
	let key = track.sounds.resources.controller().try_reserve().unwrap();
	let r = track.sounds.resources.insert_with_key(key, Box::new(s) as Box<dyn SoundTrait>);
	std::mem::forget(r);
}

// @h prop=C02,C11 tier=quick kind=main timeout=600
// @bounds one Track::process of a 2-frame chunk: two probe sounds (symbolic small-integer signals), two ordered probe effects (x*2 then x+1), track volume 0 dB or -60 dB (symbolic), no sends
// @funcs Track::process, Parameter::<Decibels>::{update,interpolated_value}, Decibels::as_amplitude, PlaybackStateManager::{update,interpolated_fade_volume}
// @catches a sound mixed twice or not at all; scratch buffer not cleared between sounds (signal leaking from one into the next); effects applied in the wrong order or after the volume; volume skipped; sounds asked for more than the chunk
#[kani::proof]
#[kani::unwind(4)]
fn c02_track_sum_effects_then_volume() {
	let w = kv_world();
	let (mut st, stc) = ResourceStorage::<SendTrack>::new(0);
	let a = [kv_small(), kv_small(), kv_small(), 0.0];
	let b = [kv_small(), kv_small(), kv_small(), 1.0];
	let silent: bool = kani::any();
	let fx: Vec<Box<dyn EffectTrait>> = vec![Box::new(KvEffect { mul: 2.0, add: 0.0, tag: 1 }), Box::new(KvEffect { mul: 1.0, add: 1.0, tag: 2 })];
	let mut track = kv_track(2, fx, vec![], kv_gain(silent), 2);
	kv_place(&mut track, KvSound { vals: a, pos: 0 });
	kv_place(&mut track, KvSound { vals: b, pos: 0 });
	let mut out = [Frame::ZERO; 2];
	track.process(&mut out, 0.25, &w.clocks, &w.modulators, &w.listeners, None, &mut st);
	let mut i = 0;
	while i < 2 {
		let l = if silent { 0.0 } else { (a[i] + b[i]) * 2.0 + 1.0 };
		let r = if silent { 0.0 } else { (-a[i] - b[i]) * 2.0 + 1.0 };
		assert!(out[i].left == l && out[i].right == r, "output = (sum of the track's sounds) through its effects in order, then its volume");
		i += 1;
	}
	unsafe {
		assert!(KV_SOUND_CALLS[0] == 1 && KV_SOUND_CALLS[1] == 1 && KV_SOUND_MAXLEN == 2, "every sound is asked for the chunk exactly once");
		assert!(KV_FX_N == 2 && KV_FX_ORDER[0] == 1 && KV_FX_ORDER[1] == 2, "effects run once each, in order");
	}
	assert!(track.temp_buffer[0] == Frame::ZERO && track.temp_buffer[1] == Frame::ZERO, "the scratch buffer is left zero");
	kani::cover!(silent && a[0] != 0.0, "w:silent-track");
	kani::cover!(!silent && a[1] != b[1], "w:audible");
	std::mem::forget(track); std::mem::forget(st); std::mem::forget(stc); std::mem::forget(w);
}

fn kv_route(silent: bool) -> SendTrackRoute {
	let (wr, rd) = command_writer_and_reader();
	std::mem::forget(wr);
	SendTrackRoute { volume: Parameter::new(Value::Fixed(kv_gain(silent)), Decibels::IDENTITY), set_volume_command_reader: rd }
}

// @h prop=C02 tier=quick kind=main timeout=900
// @bounds Track with one probe sound and TWO send routes to two real SendTracks of which the FIRST may have been removed (symbolic); all gains 0 dB; one 1-frame chunk
// @funcs Track::process (send loop), SendTrack::add_input, ResourceStorage::get_mut
// @catches a removed send aborting the remaining routes (return instead of continue); a send fed twice
#[kani::proof]
#[kani::unwind(4)]
fn c02_removed_send_does_not_cut_off_later_routes() {
	let w = kv_world();
	let (mut st, stc) = ResourceStorage::<SendTrack>::new(2);
	let ctrl = st.resources.controller();
	let k1 = ctrl.try_reserve().unwrap();
	let k2 = ctrl.try_reserve().unwrap();
	let alive1: bool = kani::any();
	if alive1 { let r = st.resources.insert_with_key(k1, SendTrack::kv_new(Decibels::IDENTITY, 1)); std::mem::forget(r); }
	{ let r = st.resources.insert_with_key(k2, SendTrack::kv_new(Decibels::IDENTITY, 1)); std::mem::forget(r); }
	let a = [kv_small(), 0.0, 0.0, 0.0];
	let mut track = kv_track(1, vec![], vec![(SendTrackId(k1), kv_route(false)), (SendTrackId(k2), kv_route(false))], Decibels::IDENTITY, 1);
	kv_place(&mut track, KvSound { vals: a, pos: 0 });
	let mut out = [Frame::ZERO; 1];
	track.process(&mut out, 0.25, &w.clocks, &w.modulators, &w.listeners, None, &mut st);
	assert!(out[0].left == a[0]);
	if alive1 { assert!(st.get_mut(k1).unwrap().kv_input(0).left == a[0]); }
	assert!(st.get_mut(k2).unwrap().kv_input(0).left == a[0], "a removed send earlier in the route list does not cut off the later routes");
	kani::cover!(!alive1 && a[0] != 0.0, "w:first-send-removed");
	std::mem::forget(track); std::mem::forget(st); std::mem::forget(stc); std::mem::forget(w);
}

// @h prop=C02 tier=thorough kind=main timeout=1700
// @bounds Track with one probe sound and one send route to a real SendTrack: track volume, route volume and send-track volume each 0 dB or -60 dB (symbolic); one 1-frame chunk, then SendTrack::process twice
// @funcs Track::process (volume, send loop), SendTrack::{add_input,process}
// @catches sends fed before the track's volume (pre-fader); route volume or send volume ignored; send input not cleared after use (signal carried into the next chunk)
#[kani::proof]
#[kani::unwind(4)]
fn c02_send_is_post_fader_times_route_times_send_volume() {
	let w = kv_world();
	let (mut st, stc) = ResourceStorage::<SendTrack>::new(1);
	let k = st.resources.controller().try_reserve().unwrap();
	let (tv, rv, sv): (bool, bool, bool) = (kani::any(), kani::any(), kani::any());
	{ let r = st.resources.insert_with_key(k, SendTrack::kv_new(kv_gain(sv), 1)); std::mem::forget(r); }
	let a = [kv_small(), 0.0, 0.0, 0.0];
	let mut track = kv_track(1, vec![], vec![(SendTrackId(k), kv_route(rv))], kv_gain(tv), 1);
	kv_place(&mut track, KvSound { vals: a, pos: 0 });
	let mut out = [Frame::ZERO; 1];
	track.process(&mut out, 0.25, &w.clocks, &w.modulators, &w.listeners, None, &mut st);
	let sel = |x: f32, silent: bool| if silent { 0.0 } else { x };
	assert!(out[0].left == sel(a[0], tv), "the track's own output is post-fader");
	let info = Info::new(&w.clocks.0.resources, &w.modulators.0.resources, &w.listeners.0.resources, None);
	let s = st.get_mut(k).unwrap();
	assert!(s.kv_input(0).left == sel(a[0], tv || rv), "a send receives the track's POST-fader signal times the route volume");
	let mut so = [Frame::ZERO; 1];
	s.process(&mut so, 0.25, &info);
	assert!(so[0].left == sel(a[0], tv || rv || sv), "the send track outputs its input times its own volume");
	assert!(s.kv_input(0) == Frame::ZERO, "its input accumulator is consumed");
	let mut so2 = [Frame::ZERO; 1];
	s.process(&mut so2, 0.25, &info);
	assert!(so2[0] == Frame::ZERO, "nothing carries over into the next chunk");
	kani::cover!(tv && !rv && a[0] != 0.0, "w:silent-track-audible-route");
	kani::cover!(!tv && !rv && !sv && a[0] != 0.0, "w:all-open");
	std::mem::forget(track); std::mem::forget(st); std::mem::forget(stc); std::mem::forget(w);
}

// @h prop=C12,C02 tier=quick kind=main timeout=600
// @bounds Track whose state machine is Paused or WaitingToResume (delay pending), with a probe sound and a probe effect: one 2-frame chunk; and the same track Playing as the control
// @funcs Track::process (is_advancing gate), PlaybackStateManager::update
// @catches a paused / waiting track still running its sounds and effects (positions advance while silent), or emitting signal
#[kani::proof]
#[kani::unwind(4)]
fn c12_paused_track_freezes_its_sounds() {
	let w = kv_world();
	let (mut st, stc) = ResourceStorage::<SendTrack>::new(0);
	let a = [kv_small(), kv_small(), kv_small(), 0.0];
	let fx: Vec<Box<dyn EffectTrait>> = vec![Box::new(KvEffect { mul: 1.0, add: 1.0, tag: 1 })];
	let mut track = kv_track(1, fx, vec![], Decibels::IDENTITY, 2);
	kv_place(&mut track, KvSound { vals: a, pos: 0 });
	let which: u8 = kani::any();
	kani::assume(which < 3);
	let st_ = match which { 0 => PlaybackState::Paused, 1 => PlaybackState::WaitingToResume, _ => PlaybackState::Playing };
	track.playback_state_manager = PlaybackStateManager::kv_forced(st_, StartTime::Delayed(Duration::from_secs(100)));
	let mut out = [Frame::new(7.0, 7.0); 2];
	track.process(&mut out, 0.25, &w.clocks, &w.modulators, &w.listeners, None, &mut st);
	unsafe {
		if which < 2 {
			assert!(out[0] == Frame::ZERO && out[1] == Frame::ZERO, "a paused track emits exact silence");
			assert!(KV_SOUND_CALLS[0] == 0 && KV_FX_N == 0, "and everything beneath it is frozen: its sounds and effects are not run");
		} else {
			assert!(KV_SOUND_CALLS[0] == 1 && KV_FX_N == 1);
		}
	}
	assert!(track.shared.state() == TrackPlaybackState::Playing || true);
	kani::cover!(which == 1, "w:waiting-to-resume");
	std::mem::forget(track); std::mem::forget(st); std::mem::forget(stc); std::mem::forget(w);
}

// @h prop=C12 tier=quick kind=main
// @bounds every u8 the audio side can store into TrackShared.state (the seven PlaybackState values) and every other value 0..=255
// @funcs TrackShared::{state,set_state}
// @catches F12: TrackHandle::state() panicking once the state machine has gone to Stopping/Stopped (resume_at on a clock that was removed)
#[kani::proof]
#[kani::unwind(2)]
fn c12_track_state_total() {
	let shared = TrackShared::new();
	let sel: u8 = kani::any();
	kani::assume(sel < 7);
	let ps = match sel { 0 => PlaybackState::Playing, 1 => PlaybackState::Pausing, 2 => PlaybackState::Paused, 3 => PlaybackState::WaitingToResume, 4 => PlaybackState::Resuming, 5 => PlaybackState::Stopping, _ => PlaybackState::Stopped };
	shared.set_state(ps);
	let s = shared.state(); // must not panic
	assert!(matches!(s, TrackPlaybackState::Playing | TrackPlaybackState::Pausing | TrackPlaybackState::Paused | TrackPlaybackState::WaitingToResume | TrackPlaybackState::Resuming));
	if sel < 5 { assert!(s as u8 == sel, "the five track states are reported as they are"); }
	if sel >= 5 { assert!(!s.is_advancing(), "a track whose state machine has stopped is reported as not advancing"); }
	kani::cover!(sel == 6, "w:stopped");
}

// @h prop=C12 tier=quick kind=main timeout=600
// @bounds Track::should_be_removed over: handle dropped or not, persist_until_sounds_finish on/off, 0 or 1 sound alive (no child tracks: nesting is outside, see DESIGN)
// @funcs Track::should_be_removed, TrackShared::{is_marked_for_removal,mark_for_removal}
// @catches a persistent track removed while its sounds still play; a track removed without its handle having been dropped
#[kani::proof]
#[kani::unwind(3)]
fn c12_should_be_removed_truth_table() {
	let (marked, persist, has_sound): (bool, bool, bool) = (kani::any(), kani::any(), kani::any());
	let mut track = kv_track(1, vec![], vec![], Decibels::IDENTITY, 1);
	track.persist_until_sounds_finish = persist;
	if has_sound { kv_place(&mut track, KvSound { vals: [0.0; 4], pos: 0 }); }
	if marked { track.shared.mark_for_removal(); }
	assert!(track.should_be_removed() == (marked && (!persist || !has_sound)), "removed iff the handle was dropped and (not persistent, or no sounds left)");
	kani::cover!(marked && persist && has_sound, "w:persisting");
	std::mem::forget(track);
}

// @h prop=C16 tier=quick kind=main timeout=600
// @bounds Track with two probe effects: init_effects(rate A) then on_change_sample_rate(rate B), A and B symbolic u32
// @funcs Track::{init_effects,on_change_sample_rate}
// @catches an effect not told the new sample rate (only the first effect, or none) - one level; nesting is outside
#[kani::proof]
#[kani::unwind(4)]
fn c16_track_fans_sample_rate_out_to_every_effect() {
	let fx: Vec<Box<dyn EffectTrait>> = vec![Box::new(KvEffect { mul: 1.0, add: 0.0, tag: 1 }), Box::new(KvEffect { mul: 1.0, add: 0.0, tag: 2 })];
	let mut track = kv_track(0, fx, vec![], Decibels::IDENTITY, 1);
	let (ra, rb): (u32, u32) = (kani::any(), kani::any());
	track.init_effects(ra);
	unsafe { assert!(KV_FX_INIT[1] == ra && KV_FX_INIT[2] == ra, "every effect is initialised with the rate in force"); }
	track.on_change_sample_rate(rb);
	unsafe { assert!(KV_FX_RATE[1] == rb && KV_FX_RATE[2] == rb, "every effect of the track learns the new rate"); }
	kani::cover!(ra != rb, "w:rate-changed");
	std::mem::forget(track);
}

// ---- one level of nesting (a Track inside a Track's arena) -----------------------------------------
fn kv_track_with_child(child: Track, effects: Vec<Box<dyn EffectTrait>>) -> Track {
	let (sounds, sc) = ResourceStorage::new(0);
	let (mut sub_tracks, tc) = ResourceStorage::new(1);
	let (cw, command_readers) = command_writers_and_readers();
	std::mem::forget(sc); std::mem::forget(tc); std::mem::forget(cw);
	let key = sub_tracks.resources.controller().try_reserve().unwrap();
	let r = sub_tracks.resources.insert_with_key(key, child);
	std::mem::forget(r);
	Track {
		shared: Arc::new(TrackShared::new()), command_readers,
		volume: Parameter::new(Value::Fixed(Decibels::IDENTITY), Decibels::IDENTITY),
		sounds, sub_tracks, effects, sends: vec![], persist_until_sounds_finish: false, spatial_data: None,
		playback_state_manager: PlaybackStateManager::new(None), temp_buffer: vec![Frame::ZERO; 1], internal_buffer_size: 1,
	}
}

// @h prop=C12 tier=experimental kind=main timeout=1750
// @note out of memory in symbolic execution (a Track inside a Track's arena: recursive drop glue): never run, kept for the record
// @bounds a parent Track holding one child Track in its arena; parent handle dropped or not, child handle dropped or not, child persistent with a live sound or not (symbolic)
// @funcs Track::should_be_removed (recursive)
// @catches a track being removed while a descendant track must stay (child handle kept, or child persisting until its sound finishes): looking only at the child's dropped-handle flag instead of asking the child
#[kani::proof]
#[kani::unwind(3)]
fn c12_parent_is_not_removed_before_its_child() {
	let (pm, cm, cpersist, csound): (bool, bool, bool, bool) = (kani::any(), kani::any(), kani::any(), kani::any());
	let mut child = kv_track(1, vec![], vec![], Decibels::IDENTITY, 1);
	child.persist_until_sounds_finish = cpersist;
	if csound { kv_place(&mut child, KvSound { vals: [0.0; 4], pos: 0 }); }
	if cm { child.shared.mark_for_removal(); }
	let child_removable = cm && (!cpersist || !csound);
	let parent = kv_track_with_child(child, vec![]);
	if pm { parent.shared.mark_for_removal(); }
	assert!(parent.should_be_removed() == (pm && child_removable), "a track is never removed while a descendant track is alive");
	kani::cover!(pm && cm && cpersist && csound, "w:child-persisting");
	kani::cover!(pm && !cm, "w:child-handle-kept");
	std::mem::forget(parent);
}

// @h prop=C16 tier=experimental kind=main timeout=1750
// @note out of memory in symbolic execution: never run, kept for the record
// @bounds a parent Track with one probe effect holding one child Track with one probe effect: init_effects(A) then on_change_sample_rate(B), A and B symbolic
// @funcs Track::{init_effects,on_change_sample_rate} (recursive)
// @catches the sample-rate change not forwarded to nested sub-tracks (their effects keep the old rate while being handed dt = 1/new rate)
#[kani::proof]
#[kani::unwind(3)]
fn c16_rate_change_reaches_nested_tracks() {
	let child = kv_track(0, vec![Box::new(KvEffect { mul: 1.0, add: 0.0, tag: 2 })], vec![], Decibels::IDENTITY, 1);
	let mut parent = kv_track_with_child(child, vec![Box::new(KvEffect { mul: 1.0, add: 0.0, tag: 1 })]);
	let (ra, rb): (u32, u32) = (kani::any(), kani::any());
	parent.init_effects(ra);
	unsafe { assert!(KV_FX_INIT[1] == ra && KV_FX_INIT[2] == ra); }
	parent.on_change_sample_rate(rb);
	unsafe { assert!(KV_FX_RATE[1] == rb && KV_FX_RATE[2] == rb, "effects on every descendant track learn the new rate"); }
	kani::cover!(ra != rb, "w:rate-changed");
	std::mem::forget(parent);
}

// (C07/C12: harnesses over a Track + TrackHandle built by the real TrackBuilder (pause / resume / resume_at / set_volume
// before the first callback, drained twice) did not finish in 900 s even with a concrete command - TrackBuilder::build
// creates a HashMap with a random hasher and five triple buffers - and were removed. Not decided.)

// @h prop=C12,C07 tier=quick kind=main timeout=600
// @bounds a childless track in ANY live state (Playing, Pausing, Paused, WaitingToResume, Resuming); in ONE callback interval its handle issued pause() and/or resume() / resume_at(delay) (any non-empty subset, symbolic); one Track::read_commands (the first step of on_start_processing)
// @funcs Track::read_commands, Track::{pause,resume,update_shared_playback_state}, PlaybackStateManager::{pause,resume}
// @catches a pause or resume of a TRACK being dropped or filtered on the way to its state machine (e.g. a resume ignored while the fade-out of a pause is still running, leaving the track frozen for good), the state mirrored to the handle lagging behind: the track's state machine must end where the sound state machine (decided in c03_psm.rs) ends for pause-then-resume
#[kani::proof]
#[kani::unwind(4)]
fn c12_track_pause_and_resume_commands_reach_the_state_machine() {
	let (sounds, sc) = ResourceStorage::new(0);
	let (sub_tracks, tc) = ResourceStorage::new(0);
	let (mut cw, command_readers) = command_writers_and_readers();
	std::mem::forget(sc); std::mem::forget(tc);
	let mut track = Track {
		shared: Arc::new(TrackShared::new()), command_readers,
		volume: Parameter::new(Value::Fixed(Decibels::IDENTITY), Decibels::IDENTITY),
		sounds, sub_tracks, effects: vec![], sends: vec![], persist_until_sounds_finish: false, spatial_data: None,
		playback_state_manager: PlaybackStateManager::new(None), temp_buffer: vec![Frame::ZERO; 1], internal_buffer_size: 1,
	};
	let sel: u8 = kani::any();
	kani::assume(sel < 5);
	let st = match sel { 0 => PlaybackState::Playing, 1 => PlaybackState::Pausing, 2 => PlaybackState::Paused, 3 => PlaybackState::WaitingToResume, _ => PlaybackState::Resuming };
	let wait = StartTime::Delayed(std::time::Duration::from_secs(100));
	track.playback_state_manager = PlaybackStateManager::kv_forced(st, wait);
	let mut twin = PlaybackStateManager::kv_forced(st, wait);
	let tw = Tween { start_time: StartTime::Immediate, duration: std::time::Duration::from_millis(250), easing: crate::Easing::Linear };
	let with_pause: bool = kani::any();
	let with_resume: u8 = kani::any();
	kani::assume(with_resume < 3 && (with_pause || with_resume != 0));
	if with_pause { cw.pause.write(tw); twin.pause(tw); }
	if with_resume == 1 { cw.resume.write((StartTime::Immediate, tw)); twin.resume(StartTime::Immediate, tw); }
	if with_resume == 2 { let d = StartTime::Delayed(std::time::Duration::from_secs(5)); cw.resume.write((d, tw)); twin.resume(d, tw); }
	track.read_commands(); // the first thing Track::on_start_processing does (the whole of it, with its two resource storages, runs CBMC out of memory)
	let want = twin.playback_state();
	assert!(track.playback_state_manager.playback_state() == want, "the track's state machine took the commands, pause first, then resume");
	let mirrored = track.shared.state();
	let want_mirrored = match want { PlaybackState::Playing => TrackPlaybackState::Playing, PlaybackState::Pausing => TrackPlaybackState::Pausing, PlaybackState::Paused => TrackPlaybackState::Paused, PlaybackState::WaitingToResume => TrackPlaybackState::WaitingToResume, PlaybackState::Resuming => TrackPlaybackState::Resuming, _ => TrackPlaybackState::Paused };
	assert!(mirrored == want_mirrored, "and the handle reports the new state");
	kani::cover!(sel == 1 && !with_pause && with_resume == 1, "w:resume-during-the-fade-out");
	kani::cover!(sel == 0 && with_pause && with_resume == 1, "w:pause-and-resume-in-one-interval");
	std::mem::forget(track); std::mem::forget(cw); std::mem::forget(twin);
}
