#!/usr/bin/env python3
"""kv driver: bounded symbolic checking of /repo's current kira tree with Kani/CBMC (engine E1)
and the MIR->SMT encoder (engine E2, kv/mirsmt.py).

usage: check <PROPERTY-ID> <quick|thorough> [--keep] [--only SUBSTR] [--jobs N] [--scratch DIR]

Exit codes: 0 property held on everything explored (KNOWN-FINDING lines may be printed)
            1 a violation was found, replayed natively, and printed as
              "VIOLATION property=<id> replay=<path>"
            2 inconclusive (build failure, timeout, out of memory, vacuous harness,
              counterexample that does not replay natively, engine-model gate failed)
"""
import concurrent.futures as cf
import hashlib
import json
import os
import re
import shutil
import subprocess
import sys
import tempfile
import time

VERIF = os.path.dirname(os.path.dirname(os.path.abspath(__file__)))
REPO = os.environ.get("KV_REPO", "/repo")
KIRA = os.path.join(REPO, "crates", "kira")
HARNESS_DIR = os.path.join(VERIF, "harness")
EVIDENCE_DIR = os.environ.get("KV_EVIDENCE_DIR") or os.path.join(VERIF, "evidence")
REPLAY_DIR = os.path.join(os.environ["KV_EVIDENCE_DIR"], "replays") if os.environ.get("KV_EVIDENCE_DIR") else os.path.join(VERIF, "replays")
KNOWN = os.path.join(VERIF, "KNOWN_FINDINGS.txt")

ENV = dict(os.environ)
ENV["CARGO_NET_OFFLINE"] = "true"
ENV.pop("RUSTUP_TOOLCHAIN", None)
# hooks in /repo are guarded by --cfg kira_verif; cargo kani honours RUSTFLAGS
ENV["KV_HARNESS_DIR"] = HARNESS_DIR
ENV["RUSTFLAGS"] = (ENV.get("RUSTFLAGS", "") + " --cfg kira_verif").strip()

KANI_BASE = ["cargo", "kani", "--no-default-features", "--lib", "-Z", "unstable-options", "-Z", "stubbing"] + os.environ.get("KV_EXTRA_KANI_ARGS", "").split()

DEFAULT_TIMEOUT = {"quick": 600, "thorough": 1800}
E2_PROPS = {"C17"}  # properties with a MIR -> SMT task (kv/mirsmt.py)
MEM_LIMIT_KB = int(os.environ.get("KV_MEM_KB", str(14 * 1024 * 1024)))


# --------------------------------------------------------------------------------------
# harness registry: parsed from the annotation comments in /verif/harness/*.rs
# --------------------------------------------------------------------------------------
class Harness:
    def __init__(self, file, name, attrs, bounds, funcs, notes, unwind, stubs):
        self.file = file
        self.name = name
        self.props = attrs.get("prop", "").split(",")
        self.tier = attrs.get("tier", "quick")
        self.kind = attrs.get("kind", "main")  # main | finding:<Fn> | gate
        self.memsafe = attrs.get("memsafe", "off") == "on"
        self.timeout = int(attrs["timeout"]) if "timeout" in attrs else None
        self.mem_kb = int(attrs["mem"]) * 1024 * 1024 if "mem" in attrs else None  # address-space limit in GB
        self.bounds = bounds
        self.funcs = funcs
        self.notes = notes
        self.unwind = unwind
        self.stubs = stubs
        self.module = None  # filled at prepare time: rust path prefix

    def finding_id(self):
        return self.kind.split(":", 1)[1] if self.kind.startswith("finding:") else None


REQUIRES = {}
FEATURES = {}  # harness file -> cargo features of kira the file needs (// @features a,b)
FEATURE_ARGS = []  # filled in main() from the selected files
NATIVE_FEATURES = {}  # harness file -> additional features for native replays only (// @native_features wav)
NATIVE_FEATURE_ARGS = []


def parse_harness_file(path):
    """Returns (append_target, [Harness])"""
    target = None
    REQUIRES[path] = []
    FEATURES[path] = []
    NATIVE_FEATURES[path] = []
    out = []
    cur = None
    with open(path) as f:
        lines = f.readlines()
    for i, line in enumerate(lines):
        s = line.strip()
        m = re.match(r"//\s*@append\s+(\S+)", s)
        if m:
            target = m.group(1)
            continue
        m = re.match(r"//\s*@requires\s+(\S+)", s)
        if m:
            REQUIRES[path].append(os.path.join(HARNESS_DIR, m.group(1)))
            continue
        m = re.match(r"//\s*@native_features\s+(\S+)", s)
        if m:
            NATIVE_FEATURES[path] += m.group(1).split(",")
            continue
        m = re.match(r"//\s*@features\s+(\S+)", s)
        if m:
            FEATURES[path] += m.group(1).split(",")
            continue
        m = re.match(r"//\s*@h\s+(.*)", s)
        if m:
            attrs = dict(kv.split("=", 1) for kv in m.group(1).split() if "=" in kv)
            cur = {"attrs": attrs, "bounds": [], "funcs": [], "notes": [], "unwind": None, "stubs": []}
            continue
        if cur is not None:
            m = re.match(r"//\s*@bounds\s+(.*)", s)
            if m:
                cur["bounds"].append(m.group(1))
                continue
            m = re.match(r"//\s*@funcs\s+(.*)", s)
            if m:
                cur["funcs"] += [x.strip() for x in re.split(r",\s*(?![^{]*\})", m.group(1)) if x.strip()]
                continue
            m = re.match(r"//\s*@(catches|note|assume)\s+(.*)", s)
            if m:
                cur["notes"].append(m.group(1) + ": " + m.group(2))
                continue
            m = re.match(r"#\[kani::unwind\((\d+)\)\]", s)
            if m:
                cur["unwind"] = int(m.group(1))
                continue
            m = re.match(r"#\[kani::stub\(([^,]+),\s*([^)]+)\)\]", s)
            if m:
                cur["stubs"].append(m.group(1).strip() + " -> " + m.group(2).strip())
                continue
            m = re.match(r"(?:pub\s+)?fn\s+([A-Za-z0-9_]+)\s*\(", s)
            if m:
                out.append(Harness(path, m.group(1), cur["attrs"], cur["bounds"], cur["funcs"],
                                   cur["notes"], cur["unwind"], cur["stubs"]))
                cur = None
    return target, out


def load_registry():
    reg = []
    for fn in sorted(os.listdir(HARNESS_DIR)):
        if not fn.endswith(".rs"):
            continue
        path = os.path.join(HARNESS_DIR, fn)
        target, hs = parse_harness_file(path)
        reg.append((path, target, hs))
    return reg


def load_known():
    """KNOWN_FINDINGS.txt lines:
    finding: property=C01 id=F5 harness=<name> check="<description substring>" function=<substring> :: <what fails>
    fixed: property=C12 <commit> <what failed>
    """
    findings, fixed = [], []
    if not os.path.exists(KNOWN):
        return findings, fixed
    for line in open(KNOWN):
        line = line.strip()
        if not line or line.startswith("#"):
            continue
        if line.startswith("finding:"):
            head, _, what = line[len("finding:"):].partition("::")
            d = {"what": what.strip(), "checks": []}
            for m in re.finditer(r'(\w+)=("([^"]*)"|\S+)', head):
                k = m.group(1)
                v = m.group(3) if m.group(3) is not None else m.group(2)
                if k == "check":
                    d["checks"].append(v)
                else:
                    d[k] = v
            findings.append(d)
        elif line.startswith("fixed:"):
            fixed.append(line)
    return findings, fixed


# --------------------------------------------------------------------------------------
# scratch tree
# --------------------------------------------------------------------------------------
def prepare_scratch(scratch, files):
    """Copy /repo/crates/kira (current working tree) and append the #[cfg(kani)] harness modules."""
    dst = os.path.join(scratch, "kira")
    subprocess.check_call(["rsync", "-a", "--delete", "--exclude", "target", KIRA + "/", dst + "/"])
    shutil.copy(os.path.join(REPO, "Cargo.lock"), os.path.join(dst, "Cargo.lock"))
    # glam's SSE2 code path makes Kani report spurious "simd_mul would overflow" failures on float lanes;
    # its scalar-math feature computes the same products lane by lane (DESIGN.md, C15)
    ct = open(os.path.join(dst, "Cargo.toml")).read()
    ct2 = ct.replace('features = ["mint"]', 'features = ["mint", "scalar-math"]', 1)
    if ct2 != ct:
        open(os.path.join(dst, "Cargo.toml"), "w").write(ct2)
    with open(os.path.join(dst, "Cargo.toml"), "a") as f:
        f.write("\n[workspace]\n\n[lints.rust]\nunexpected_cfgs = { level = \"allow\", check-cfg = ['cfg(kani)', 'cfg(kira_verif)', 'cfg(kv_native)'] }\n")
    modmap = {}
    for path, target in files:
        tpath = os.path.join(dst, target)
        if not os.path.exists(tpath):
            raise RuntimeError("append target %s does not exist in /repo tree" % target)
        modname = "kv_" + os.path.splitext(os.path.basename(path))[0]
        with open(tpath, "a") as f:
            f.write("\n#[cfg(kani)]\n#[allow(unused, non_snake_case, clippy::all)]\nmod %s {\n\tuse super::*;\n\tinclude!(\"%s\");\n}\n"
                    % (modname, path))
        # rust module path of the file
        rel = target[len("src/"):-len(".rs")]
        parts = [p for p in rel.split("/") if p not in ("lib", "mod")]
        modmap[path] = "::".join(parts + [modname])
    return dst, modmap


def run(cmd, cwd, log, timeout, mem_kb=None, env=None):
    """Run cmd with wall timeout and address-space limit. Returns (rc, timed_out)."""
    pre = ""
    if mem_kb:
        pre = "ulimit -v %d; " % mem_kb
    sh = pre + "exec " + " ".join("'%s'" % c.replace("'", "'\\''") for c in cmd)
    with open(log, "w") as lf:
        p = subprocess.Popen(["bash", "-c", sh], cwd=cwd, stdout=lf, stderr=subprocess.STDOUT, env=env or ENV,
                             start_new_session=True)
        try:
            rc = p.wait(timeout=timeout)
            return rc, False
        except subprocess.TimeoutExpired:
            try:
                os.killpg(p.pid, 9)
            except ProcessLookupError:
                pass
            p.wait()
            return -9, True


# --------------------------------------------------------------------------------------
# Kani output parsing
# --------------------------------------------------------------------------------------
CHECK_RE = re.compile(
    r"^Check (\d+): ([^\n]+)\n\t - Status: (\w+)\n\t - Description: \"(.*)\"\n\t - Location: (.*)$", re.M)


def parse_kani_log(text):
    res = {"checks": [], "verdict": None, "vars": 0, "clauses": 0, "solver_s": 0.0, "symex_s": 0.0,
           "verif_time_s": None, "vccs": None, "vccs_remaining": None, "oom": False, "unsupported": False}
    for m in CHECK_RE.finditer(text):
        loc = m.group(5)
        fn = ""
        mm = re.search(r" in function (.*)$", loc)
        if mm:
            fn = mm.group(1).strip()
        res["checks"].append({"n": int(m.group(1)), "id": m.group(2), "status": m.group(3),
                              "description": m.group(4).strip('"'), "function": fn,
                              "location": loc.split(" in function ")[0]})
    m = re.search(r"VERIFICATION:- (\w+)", text)
    if m:
        res["verdict"] = m.group(1)
    for m in re.finditer(r"^(\d+) variables, (\d+) clauses", text, re.M):
        res["vars"] = max(res["vars"], int(m.group(1)))
        res["clauses"] = max(res["clauses"], int(m.group(2)))
    for m in re.finditer(r"^Runtime Solver: ([0-9.e+-]+)s", text, re.M):
        res["solver_s"] += float(m.group(1))
    m = re.search(r"^Runtime Symex: ([0-9.e+-]+)s", text, re.M)
    if m:
        res["symex_s"] = float(m.group(1))
    m = re.search(r"Generated (\d+) VCC\(s\), (\d+) remaining after simplification", text)
    if m:
        res["vccs"], res["vccs_remaining"] = int(m.group(1)), int(m.group(2))
    m = re.search(r"Verification Time: ([0-9.e+-]+)s", text)
    if m:
        res["verif_time_s"] = float(m.group(1))
    if re.search(r"Status: ERROR|std::bad_alloc|Out of memory|SAT checker ran out of memory|memory exhausted", text):
        res["oom"] = True
    if re.search(r"unsupported_construct|is not currently supported by Kani", text) and \
            any(c["status"] == "FAILURE" and "not currently supported" in c["description"] for c in res["checks"]):
        res["unsupported"] = True
    return res


PLAYBACK_RE = re.compile(r"Concrete playback unit test for `([^`]+)`:\n```\n(.*?)\n```", re.S)


def parse_playback(text):
    """-> list of (check_kind, check_desc, test_name, test_source)"""
    out = []
    for m in PLAYBACK_RE.finditer(text):
        src = m.group(2)
        mk = re.search(r"/// Check for `(\w+)`: \"(.*?)\"\s*\n\s*(?:#\[test\]|\n)", src, re.S)
        if not mk:
            mk = re.search(r"/// Check for `(\w+)`: \"(.*)", src)
        mn = re.search(r"fn (kani_concrete_playback_\w+)\(", src)
        # Kani copies the failed check's message into a `///` header; a message that spans several lines (an
        # assert! without a message whose condition is wrapped) continues WITHOUT the `///` prefix and would not
        # compile -- and, being included in the scratch crate, would break every later native replay of the run.
        # Everything before `#[test]` is turned into plain `//` comments.
        cut = src.find("#[test]")
        if cut > 0:
            head = "".join("// " + l.lstrip("/ ").rstrip() + "\n" for l in src[:cut].splitlines() if l.strip())
            src = head + src[cut:]
        if mn:
            out.append((mk.group(1) if mk else "", " ".join(mk.group(2).split()).strip('"') if mk else "", mn.group(1), src))
    return out


def concrete_vals_of(src):
    vals = []
    for m in re.finditer(r"//\s*(.+)\n\s*vec!\[([0-9, ]*)\]", src):
        vals.append({"value": m.group(1).strip(), "bytes": [int(x) for x in m.group(2).replace(" ", "").split(",") if x]})
    return vals


# --------------------------------------------------------------------------------------
# running one harness
# --------------------------------------------------------------------------------------
def harness_cmd(h, playback=False, failed=(), sliced=False):
    cmd = list(KANI_BASE) + FEATURE_ARGS
    # the counterexample of a failed assertion / panic does not need CBMC's pointer checks (they triple the
    # formula and made playback runs of heap-heavy harnesses run out of memory)
    pointer_failure = any(("pointer" in c["id"] or "dereference" in c["description"]) for c in failed)
    if not h.memsafe or (playback and not pointer_failure):
        cmd += ["--no-memory-safety-checks"]
    # CBMC's float overflow / NaN checks have no native counterpart (a failure could never be
    # replayed); NaN-freedom is asserted explicitly where it is the claim. Rust arithmetic
    # overflow, index, unwrap, division-by-zero panics are MIR assertions and stay on.
    cmd += ["--no-overflow-checks", "--no-assertion-reach-checks"]
    if playback:
        cmd += ["-Z", "concrete-playback", "--concrete-playback=print"]
    cmd += ["--harness", h.module + "::" + h.name, "--exact"]
    if playback and sliced:
        # Kani's playback mode does not slice the formula (41 M instead of 1.2 M variables on a ring-buffer harness:
        # out of memory, no test generated); slicing only leaves inputs irrelevant to the failing check unconstrained
        cmd += ["--cbmc-args", "--slice-formula"]
    return cmd


def run_harness(h, crate, logdir, tier):
    t0 = time.time()
    timeout = h.timeout or DEFAULT_TIMEOUT[tier]
    if os.environ.get("KV_TIMEOUT"):
        timeout = int(os.environ["KV_TIMEOUT"])
    log = os.path.join(logdir, h.name + ".log")
    rc, timed_out = run(harness_cmd(h), crate, log, timeout, h.mem_kb or MEM_LIMIT_KB)
    text = open(log, errors="replace").read()
    r = parse_kani_log(text)
    r["wall_s"] = round(time.time() - t0, 2)
    r["rc"] = rc
    r["log"] = log
    covers = [c for c in r["checks"] if ".cover." in c["id"]]
    asserts = [c for c in r["checks"] if ".cover." not in c["id"]]
    failed = [c for c in asserts if c["status"] == "FAILURE"]
    if timed_out:
        cls = "timeout"
    elif r["verdict"] is None:
        cls = "oom" if (r["oom"] or rc in (-9, 137, 134)) else "error"
    elif r["oom"] and not failed:
        cls = "oom"
    elif r["verdict"] == "SUCCESSFUL":
        bad_cov = [c for c in covers if c["status"] != "SATISFIED"]
        cls = "vacuous" if bad_cov else "proved"
        if not covers:
            cls = "nowitness"
    else:
        if failed and all("unwinding assertion" in c["description"] for c in failed):
            cls = "unwinding"
        elif failed:
            cls = "failed"
        else:
            cls = "oom" if r["oom"] else "error"
    r["class"] = cls
    r["failed"] = failed
    r["covers"] = covers
    r["n_checks"] = len(asserts)
    r["n_ok"] = len([c for c in asserts if c["status"] == "SUCCESS"])
    return r


def replay_natively(h, crate, logdir, failed, tier):
    """Ask Kani for a concrete counterexample, add the generated unit test to the scratch copy and
    run it as an ordinary native test (dev and release). Returns dict with 'reproduced' etc."""
    out = {"reproduced": False, "tests": [], "reason": ""}
    log = os.path.join(logdir, h.name + ".playback.log")
    timeout = 3 * (h.timeout or DEFAULT_TIMEOUT[tier])
    # stage 1: exact trace (all inputs); stage 2, only if that produced no test (typically out of memory): sliced trace
    rc, to = run(harness_cmd(h, playback=True, failed=failed), crate, log, timeout, max(MEM_LIMIT_KB, 40 * 1024 * 1024))
    text = open(log, errors="replace").read()
    tests = [t for t in parse_playback(text) if t[0] != "cover"]
    out["playback_sliced"] = False
    if not tests:
        log = os.path.join(logdir, h.name + ".playback.sliced.log")
        rc, to = run(harness_cmd(h, playback=True, failed=failed, sliced=True), crate, log, timeout, max(MEM_LIMIT_KB, 40 * 1024 * 1024))
        text = open(log, errors="replace").read()
        tests = [t for t in parse_playback(text) if t[0] != "cover"]
        out["playback_sliced"] = True
    if not tests:
        out["reason"] = "Kani produced no concrete playback test (timeout=%s)" % to
        return out
    # place the tests next to the harness: a generated file included from the same child module
    gen = os.path.join(crate, "kv_playback_%s.rs" % h.name)
    with open(gen, "w") as f:
        for t in tests:
            f.write(t[3] + "\n")
    # find the appended module and add an include
    rel = h.module.split("::")
    modname = rel[-1]
    srcs = subprocess.run(["grep", "-rl", "mod %s {" % modname, os.path.join(crate, "src")],
                          capture_output=True, text=True).stdout.split()
    if not srcs:
        out["reason"] = "could not locate harness module in scratch"
        return out
    src = srcs[0]
    txt = open(src).read()
    marker = "mod %s {\n\tuse super::*;\n" % modname
    if gen not in txt:
        txt = txt.replace(marker, marker + "\tinclude!(\"%s\");\n" % gen, 1)
        open(src, "w").write(txt)
    def native_run(t, src_text, profile):
        """writes the (possibly padded) test, runs it natively, returns (passed, failed, hung, panic message)"""
        with open(gen, "w") as f:
            for t2 in tests:
                f.write((src_text if t2 is t else t2[3]) + "\n")
        plog = os.path.join(logdir, "%s.native.%s.log" % (t[2], profile))
        cmd = ["cargo", "kani", "playback", "--no-default-features", "--lib", "-Z", "concrete-playback"] + (NATIVE_FEATURE_ARGS or FEATURE_ARGS)
        env = dict(ENV)
        # native replays run the REAL libm / kernels (stubs do not exist natively): harnesses switch
        # from their spy/uninterpreted oracle to a plain reference oracle under cfg(kv_native)
        env["RUSTFLAGS"] = ENV["RUSTFLAGS"] + " --cfg kv_native"
        if profile == "release":
            # `cargo kani playback` has no --release: give the dev profile release semantics
            env.update({"CARGO_PROFILE_DEV_OPT_LEVEL": "3", "CARGO_PROFILE_DEV_DEBUG_ASSERTIONS": "false",
                        "CARGO_PROFILE_DEV_OVERFLOW_CHECKS": "false", "CARGO_PROFILE_DEV_DEBUG": "false"})
        cmd += ["--", "--exact", h.module + "::" + t[2]]
        rc, to = run(cmd, crate, plog, 600, env=env)
        ptxt = open(plog, errors="replace").read()
        passed = re.search(r"test result: ok\. 1 passed", ptxt) is not None
        failed_native = re.search(r"test result: FAILED\. 0 passed; 1 failed", ptxt) is not None
        msg = ""
        mm = re.search(r"panicked at ([^\n]*)\n([^\n]*(?:\n[^\n]*)?)", ptxt)
        if mm:
            msg = (mm.group(1) + " " + mm.group(2)).strip()
        return passed, failed_native, to, msg

    for profile in ("dev", "release"):
        for t in tests:
            src_text = t[3]
            pads = 0
            while True:
                passed, failed_native, hung, msg = native_run(t, src_text, profile)
                # the playback run is sliced: inputs irrelevant to the failing check are missing from the trace. Missing
                # trailing values are padded with zeros of the size Kani's runtime asks for (any admissible input that
                # makes the real code fail the harness natively is a genuine counterexample, however it was found).
                if failed_native and "Not enough det vals found" in msg and pads < 64:
                    src_text = re.sub(r"(\n    \];\n    kani::concrete_playback_run)", "\n        vec![0],\\1", src_text, count=1)
                    pads += 1
                    continue
                mm2 = re.search(r"Expected (\d+) bytes in the following det vals vec", msg)
                if failed_native and mm2 and pads > 0 and pads < 64 and "vec![0],\n    ];" in src_text:
                    src_text = src_text.replace("vec![0],\n    ];", "vec![%s],\n    ];" % ", ".join(["0"] * int(mm2.group(1))), 1)
                    pads += 1
                    continue
                break
            # a panic raised inside Kani's playback runtime is not a failure of the code under test:
            #  - "values left over": stubs drew values that the native run (real libm/kernels) never consumes -> native PASS
            #  - kani::assume violated / size mismatch: the (padded or misaligned) inputs are not admissible -> inconclusive
            in_kani = ("library/kani" in msg) or ("kani::assume" in msg)
            if failed_native and in_kani and not hung:
                failed_native = False
                passed = "left over" in msg
            out["tests"].append({"check": t[1], "test": t[2], "profile": profile,
                                 "native_fails": bool(failed_native or hung), "hang": bool(hung),
                                 "native_passes": bool(passed), "panic": msg[:300], "zero_padded_inputs": pads,
                                 "values": concrete_vals_of(src_text)[:24]})
            if t[3] != src_text:
                t_list = list(t); t_list[3] = src_text
                tests[tests.index(t)] = tuple(t_list)
    out["reproduced"] = any(x["native_fails"] for x in out["tests"])
    if not out["reproduced"]:
        out["reason"] = "counterexample does not fail natively (encoding/stub artefact)"
    out["source"] = "\n".join(t[3] for t in tests)
    return out


# --------------------------------------------------------------------------------------
def short(fn):
    return re.sub(r"kv_\w+::", "", fn)


def main(argv):
    if len(argv) < 3:
        print(__doc__)
        return 2
    prop, tier = argv[1], argv[2]
    assert tier in ("quick", "thorough")
    keep = "--keep" in argv
    only = argv[argv.index("--only") + 1] if "--only" in argv else None
    jobs = int(argv[argv.index("--jobs") + 1]) if "--jobs" in argv else int(os.environ.get("KV_JOBS", "12"))
    seed = int(os.environ.get("VERIF_SEED", "0"))
    t_start = time.time()
    if (only or "--scratch" in argv) and not os.environ.get("KV_EVIDENCE_DIR"):
        # partial / development runs never overwrite the registered evidence file
        global EVIDENCE_DIR, REPLAY_DIR
        EVIDENCE_DIR = "/tmp/kw/evidence_partial"
        REPLAY_DIR = "/tmp/kw/evidence_partial/replays"

    reg = load_registry()
    sel, files = [], []
    for path, target, hs in reg:
        mine = [h for h in hs if (prop in h.props or h.kind == "gate" or (prop == "ALL-THOROUGH-ONLY" and h.tier == "thorough"))
                and (h.tier == "quick" or (tier == "thorough" and h.tier == "thorough"))  # tier=experimental is never run
                and (only is None or only in h.name or h.kind == "gate")]
        if mine:
            files.append((path, target))
            sel += mine
    # helper files (no harnesses of their own) required by the selected harness files
    targets = {path: target for path, target, _ in reg}
    changed = True
    while changed:  # transitively
        changed = False
        for path, _ in list(files):
            for req in REQUIRES.get(path, []):
                if req not in [f for f, _ in files]:
                    files.append((req, targets[req]))
                    changed = True
    if not [h for h in sel if h.kind != "gate"]:
        print("no harnesses registered for %s/%s" % (prop, tier))
        return 2
    # VERIF_SEED only permutes the order in which harnesses are scheduled; nothing is sampled
    sel.sort(key=lambda h: hashlib.sha1((str(seed) + h.name).encode()).hexdigest())
    sel.sort(key=lambda h: -(h.timeout or 0))

    scratch = None
    if "--scratch" in argv:
        scratch = argv[argv.index("--scratch") + 1]
        os.makedirs(scratch, exist_ok=True)
        keep = True
    else:
        scratch = tempfile.mkdtemp(prefix="kv_%s_" % prop, dir=os.environ.get("KV_TMP", "/tmp"))
    logdir = os.path.join(scratch, "logs")
    os.makedirs(logdir, exist_ok=True)
    rc_final = 2
    try:
        # ---- build once -------------------------------------------------------------------
        # If the build fails because of errors located in harness files (typically a change to /repo that adds a struct
        # field or renames a private item a harness names), those files -- and the files that @require them -- are left
        # out, their harnesses are reported INCONCLUSIVE, and the remaining harnesses are built and run: one harness file
        # that no longer compiles must not silence every other harness of the property.
        blog = os.path.join(logdir, "build.log")
        t0 = time.time()
        build_dropped = []
        for attempt in range(4):
            crate, modmap = prepare_scratch(scratch, files)
            for h in sel:
                h.module = modmap[h.file]
            feats = sorted({x for path, _ in files for x in FEATURES.get(path, [])})
            FEATURE_ARGS[:] = ["--features", ",".join(feats)] if feats else []
            nfeats = sorted(set(feats) | {x for path, _ in files for x in NATIVE_FEATURES.get(path, [])})
            NATIVE_FEATURE_ARGS[:] = ["--features", ",".join(nfeats)] if nfeats else []
            rc, to = run(KANI_BASE + FEATURE_ARGS + ["--only-codegen"], crate, blog, 1500)
            if rc == 0:
                break
            text = open(blog, errors="replace").read()
            names = [f for f, _ in files]
            bad = {b for b in re.findall(r"--> (%s/[\w./-]+\.rs):\d+" % re.escape(HARNESS_DIR), text) if b in names}
            changed = bool(bad)
            while changed:
                changed = False
                for path in names:
                    if path not in bad and any(r in bad for r in REQUIRES.get(path, [])):
                        bad.add(path)
                        changed = True
            keep = [h for h in sel if h.file not in bad]
            if not bad or attempt == 3 or not [h for h in keep if h.kind != "gate"]:
                break
            shutil.copy(blog, os.path.join(logdir, "build.attempt%d.log" % attempt))
            build_dropped += [h for h in sel if h.file in bad]
            sel = keep
            files = [(p_, t_) for p_, t_ in files if p_ not in bad]
            print("  build: %s do(es) not compile against the current tree; continuing without" % ", ".join(sorted(os.path.basename(b) for b in bad)), flush=True)
        build_s = round(time.time() - t0, 1)
        if rc != 0:
            tail = "".join(open(blog, errors="replace").readlines()[-40:])
            print("INCONCLUSIVE property=%s: harness build failed against the current tree (rc=%s)\n%s" % (prop, rc, tail))
            write_evidence(prop, tier, seed, [], {}, time.time() - t_start, 0, ["build failed"], build_s, inconclusive=["build"])
            return 2
        # ---- run harnesses ----------------------------------------------------------------
        results = {}
        with cf.ThreadPoolExecutor(max_workers=jobs) as ex:
            futs = {ex.submit(run_harness, h, crate, logdir, tier): h for h in sel}
            for fu in cf.as_completed(futs):
                h = futs[fu]
                results[h.name] = fu.result()
                r = results[h.name]
                print("  [%-9s] %-52s %6.1fs checks=%d/%d vars=%d" % (
                    r["class"], h.name, r["wall_s"], r["n_ok"], r["n_checks"], r["vars"]), flush=True)
        # ---- classify ---------------------------------------------------------------------
        findings, fixed = load_known()
        violations, inconclusive, known_lines = [], [], []
        for h in build_dropped:
            if h.kind != "gate":
                inconclusive.append("%s: its harness file %s does not compile against the current tree (see logs/build.attempt*.log)" % (h.name, os.path.basename(h.file)))
        os.makedirs(REPLAY_DIR, exist_ok=True)
        for h in sel:
            r = results[h.name]
            fid = h.finding_id()
            if h.kind == "gate":
                if r["class"] not in ("proved", "nowitness"):
                    inconclusive.append("%s: engine-model gate harness %s" % (h.name, r["class"]))
                continue
            if fid:
                # expected to fail exactly as listed
                listed = [f for f in findings if f.get("harness") == h.name and f.get("id") == fid]
                if r["class"] in ("proved", "nowitness", "vacuous"):
                    # defect no longer present (fixed) -> no line
                    r["finding_state"] = "not-present"
                    continue
                if r["class"] in ("failed", "unwinding") and listed:
                    f = listed[0]
                    unexpected = []
                    for c in r["failed"]:
                        ok = any(chk in c["description"] for chk in f["checks"]) and \
                            (f.get("function", "") in c["function"])
                        if not ok:
                            unexpected.append(c)
                    if not unexpected:
                        known_lines.append("KNOWN-FINDING: property=%s %s %s" % (prop, fid, f["what"]))
                        r["finding_state"] = "as-listed"
                        if tier == "thorough" and r["class"] == "failed":
                            # thorough tier: confirm the listed finding against the native build as well (does not affect the verdict)
                            rep = replay_natively(h, crate, logdir, r["failed"], tier)
                            r["replay"] = rep
                            print("  finding %s (%s): native replay %s" % (fid, h.name, "REPRODUCES" if rep["reproduced"] else "does not reproduce: " + rep["reason"]), flush=True)
                        continue
                    r["failed"] = unexpected
                    # fallthrough: treat unexpected failures as violation candidates
                elif r["class"] in ("timeout", "oom", "error"):
                    inconclusive.append("%s: %s" % (h.name, r["class"]))
                    continue
            if r["class"] == "proved":
                continue
            if r["class"] in ("nowitness",):
                inconclusive.append("%s: harness has no reachability witness (kani::cover!)" % h.name)
                continue
            if r["class"] == "vacuous":
                inconclusive.append("%s: vacuous - cover witness not satisfied: %s" % (
                    h.name, [c["description"] for c in r["covers"] if c["status"] != "SATISFIED"]))
                continue
            if r["class"] in ("timeout", "oom", "error"):
                inconclusive.append("%s: %s (see %s)" % (h.name, r["class"], r["log"]))
                continue
            # failed / unwinding: replay natively before reporting
            rep = replay_natively(h, crate, logdir, r["failed"], tier)
            r["replay"] = rep
            desc = "; ".join(sorted(set("%s @ %s" % (c["description"], short(c["function"])) for c in r["failed"])))
            if rep["reproduced"]:
                rp = os.path.join(REPLAY_DIR, "%s_%s.rs" % (prop, h.name))
                with open(rp, "w") as f:
                    f.write("// property %s, harness %s (file %s)\n// failed checks: %s\n"
                            "// native replay: append the harness module to a copy of crates/kira as the check does,\n"
                            "// add this test to the module and run `cargo kani playback --no-default-features --lib -Z concrete-playback`\n"
                            "// native results: %s\n\n%s\n" % (
                                prop, h.name, os.path.relpath(h.file, VERIF), desc,
                                json.dumps([{k: t[k] for k in ("test", "profile", "native_fails", "hang", "panic")} for t in rep["tests"]]),
                                rep.get("source", "")))
                violations.append((h, desc, rp))
            elif r["class"] == "unwinding" and not rep["tests"]:
                inconclusive.append("%s: unwinding assertion failed and no concrete trace (%s)" % (h.name, desc))
            else:
                inconclusive.append("%s: failed in the encoding but the counterexample does not replay natively (%s): %s"
                                    % (h.name, rep["reason"], desc))
        # ---- engine E2 (MIR -> SMT) for the float kernels Kani cannot be trusted with --------------------------
        e2 = None
        if prop in E2_PROPS and only is None:
            e2dir = os.path.join(scratch, "e2")
            e2json = os.path.join(e2dir, "report.json")
            os.makedirs(e2dir, exist_ok=True)
            e2log = os.path.join(logdir, "e2.log")
            rc_e2, to = run([sys.executable, os.path.join(VERIF, "kv", "mirsmt.py"), e2dir, "--json", e2json], VERIF, e2log, 2400)
            print(open(e2log, errors="replace").read().rstrip(), flush=True)
            try:
                e2 = json.load(open(e2json))
            except Exception:
                e2 = {"queries": [], "violations": [], "inconclusive": ["E2 produced no report (timeout=%s, rc=%s)" % (to, rc_e2)]}
            for v in e2.get("violations", []):
                rp = os.path.join(REPLAY_DIR, "%s_E2_lfo_update.json" % prop)
                json.dump({"property": prop, "engine": "E2 mirsmt", "function": e2.get("function"), "violated_claim": v["claim"], "model_inputs": v.get("model"),
                           "replay": "kv/mirsmt.py replays the model natively (generated #[cfg(test)] module kv_e2_replay in the scratch copy of src/modulator/lfo.rs); it reproduced"},
                          open(rp, "w"), indent=1, default=str)
                violations.append((Harness("kv/mirsmt.py", "E2:lfo_update", {"prop": prop}, [], [], [], None, []), v["claim"], rp))
            for s_ in e2.get("inconclusive", []):
                inconclusive.append("E2: " + s_)
        for l in known_lines:
            print(l)
        for h, desc, rp in violations:
            print("VIOLATION property=%s replay=%s" % (prop, rp))
            print("  harness %s: %s" % (h.name, desc))
        for s in inconclusive:
            print("INCONCLUSIVE property=%s %s" % (prop, s))
        wall = time.time() - t_start
        write_evidence(prop, tier, seed, sel, results, wall, len(violations), known_lines, build_s, inconclusive, e2=e2)
        if violations:
            rc_final = 1
        elif inconclusive:
            rc_final = 2
        else:
            rc_final = 0
        print("%s %s: %d harnesses, %d proved, %d known findings, %d violations, %d inconclusive, %.0fs" % (
            prop, tier, len(sel), len([1 for h in sel if results[h.name]["class"] == "proved"]),
            len(known_lines), len(violations), len(inconclusive), wall))
        return rc_final
    finally:
        if not keep:
            shutil.rmtree(scratch, ignore_errors=True)
        else:
            print("scratch kept at", scratch)


def write_evidence(prop, tier, seed, sel, results, wall, nviol, known_lines, build_s, inconclusive=(), e2=None):
    os.makedirs(EVIDENCE_DIR, exist_ok=True)
    hs = []
    evaluations = 0
    nontrivial = 0
    samples = []
    funcs = set()
    stubs = set()
    solver_s = 0.0
    queries = 0
    for h in sel:
        r = results[h.name]
        evaluations += r["n_ok"]
        queries += r["n_checks"] + len(r["covers"])
        solver_s += r["solver_s"]
        sat_cov = [c for c in r["covers"] if c["status"] == "SATISFIED"]
        if r["class"] == "proved" and sat_cov:
            nontrivial += 1
        funcs.update(h.funcs)
        stubs.update(h.stubs)
        hs.append({
            "harness": h.name, "file": os.path.relpath(h.file, VERIF), "kind": h.kind, "tier": h.tier,
            "result": r["class"], "finding_state": r.get("finding_state"),
            "bounds": h.bounds, "unwind": h.unwind, "functions_encoded": h.funcs, "stubs": h.stubs, "notes": h.notes,
            "checks_total": r["n_checks"], "checks_success": r["n_ok"],
            "failed_checks": [{"description": c["description"], "function": short(c["function"])} for c in r["failed"]][:10],
            "cover_witnesses": [{"description": c["description"], "status": c["status"]} for c in r["covers"]],
            "sat_variables": r["vars"], "sat_clauses": r["clauses"], "vccs": r["vccs"], "vccs_remaining": r["vccs_remaining"],
            "solver_s": round(r["solver_s"], 3), "symex_s": round(r["symex_s"], 3), "wall_s": r["wall_s"],
            "pointer_checks": h.memsafe,
            "replay": {k: v for k, v in r.get("replay", {}).items() if k != "source"} or None,
        })
        if len(samples) < 12:
            samples.append({"obligation": h.name, "bounds": h.bounds,
                            "asserted": sorted(set(c["description"] for c in r["checks"] if ".cover." not in c["id"] and "harness/" in c["location"]))[:12],
                            "witnesses_reached": [c["description"] for c in sat_cov][:6],
                            "result": r["class"]})
    if e2:
        unsat = [q for q in e2.get("queries", []) if q.get("z3") == "unsat" and q.get("cvc5") in ("unsat", None)]
        evaluations += len(unsat)
        queries += len(e2.get("queries", []))
        solver_s += sum(q.get("z3_s", 0) + q.get("cvc5_s", 0) for q in e2.get("queries", []))
        if unsat:
            nontrivial += 1
        samples.append({"obligation": "E2 (MIR -> SMT): " + str(e2.get("function")), "queries": [{k: q.get(k) for k in ("claim", "z3", "cvc5", "z3_s")} for q in e2.get("queries", [])],
                        "translation_validation_vectors_agreeing": len([t for t in e2.get("translation_validation", []) if t.get("agree")]),
                        "structural": e2.get("structural")})
    ev = {
        "property_id": prop, "tier": tier, "seed": seed, "level": "model_checking",
        "coverage": {
            "evaluations": max(evaluations, 0),
            "distinct_nontrivial": nontrivial,
            "rule": "one case = one bounded symbolic harness over the real compiled code (Kani -> CBMC -> CaDiCaL); "
                    "evaluations = assertions/panic conditions/unwinding assertions decided SUCCESS by the solver over all "
                    "symbolic inputs within the stated bounds; distinct_nontrivial = harnesses proved whose every kani::cover! "
                    "reachability witness was SATISFIED (the assertion is reachable under the assumptions, not vacuous)",
            "samples": samples or [{"note": "no harness ran"}],
            "explanation": "Solver-based bounded checking. Each harness makes inputs / pre-states / command choices symbolic "
                           "(kani::any under the documented validity predicate), runs the real functions of /repo's current "
                           "working tree, and asserts the property; CBMC with unwinding assertions decides it for every value "
                           "inside the bounds listed per harness. Nothing is claimed outside those bounds.",
            "exhaustive": False,
            "engine": "Kani 0.68.0 / CBMC 6.11.0 / CaDiCaL",
            "functions_encoded": sorted(funcs),
            "stubs_in_force": sorted(stubs),
            "queries_discharged": queries,
            "solver_time_s": round(solver_s, 2),
            "build_s": build_s,
            "harnesses": hs,
            "known_findings_reported": list(known_lines),
            "inconclusive": list(inconclusive),
            "e2": e2,
        },
        "assumptions": [
            "Kani/CBMC model of Rust semantics and IEEE-754 arithmetic (float % and libm calls are NOT trusted: see the gate harnesses and contract stubs)",
            "atomics are sequentially consistent single-thread operations in the encoding; no real threads",
            "sizes (buffer lengths, capacities, channel counts) are concrete per harness; values are symbolic",
            "per-harness assumptions are listed under harnesses[].bounds / notes / stubs",
        ],
        "wall_s": round(wall, 1),
        "violations": nviol,
    }
    with open(os.path.join(EVIDENCE_DIR, prop + ".json"), "w") as f:
        json.dump(ev, f, indent=1)


if __name__ == "__main__":
    sys.exit(main(sys.argv))
