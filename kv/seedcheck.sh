#!/bin/bash
# usage: seedcheck.sh <patch.diff> <PROPERTY> [extra check args]
# Applies the seeded change to a scratch COPY of /repo's working tree (so that /repo itself is never touched and
# other checks can run meanwhile), runs the check against it (KV_REPO), removes the copy.
P=$1; PROP=$2; shift 2
COPY=$(mktemp -d /tmp/kv_seedrepo_XXXX)
rsync -a --exclude target --exclude .git /repo/ "$COPY/"
( cd "$COPY" && git init -q . 2>/dev/null; git -C "$COPY" apply "$P" ) || { echo "patch does not apply"; rm -rf "$COPY"; exit 3; }
OUT=$(mktemp /tmp/kv_seedcheck_XXXX.out)
cd /verif && KV_REPO="$COPY" KV_EVIDENCE_DIR=/tmp/kw/seed_evidence ./check "$PROP" "${TIER:-quick}" "$@" > "$OUT" 2>&1
rc=$?
rm -rf "$COPY"
grep -E "VIOLATION|INCONCLUSIVE|KNOWN-FINDING|^  harness|^C[0-9]+ " "$OUT" | cut -c1-300
echo "exit=$rc"
rm -f "$OUT"
