// @append src/track/send.rs
// @requires kv_param_peek.rs
// helper (no harness)
impl SendTrack {
	pub(crate) fn kv_new(volume: Decibels, internal_buffer_size: usize) -> Self {
		let (w, r) = crate::command::command_writer_and_reader();
		std::mem::forget(w);
		Self {
			shared: Arc::new(TrackShared::new()),
			volume: Parameter::new(crate::Value::Fixed(volume), Decibels::IDENTITY),
			set_volume_command_reader: r,
			effects: vec![],
			input: vec![Frame::ZERO; internal_buffer_size],
			internal_buffer_size,
		}
	}
	pub(crate) fn kv_input(&self, i: usize) -> Frame { self.input[i] }
	pub(crate) fn kv_push_effect(&mut self, e: Box<dyn Effect>) { self.effects.push(e); }
	/// starts a 10 s volume tween (0 dB -> 0 dB): its elapsed time then measures how many frames' worth of time process() was given
	pub(crate) fn kv_start_stopwatch(&mut self) { self.volume.set(crate::Value::Fixed(Decibels::IDENTITY), crate::Tween { start_time: crate::StartTime::Immediate, duration: std::time::Duration::from_secs(10), easing: crate::Easing::Linear }); }
	pub(crate) fn kv_stopwatch(&self) -> Option<f64> { self.volume.kv_tween_time() }
}
