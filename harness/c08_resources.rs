// @append src/backend/resources.rs
// C08: resource life cycle on the real ResourceStorage / SelfReferentialResourceStorage /
// ResourceController (atomic_arena + rtrb underneath, pointer checks ON).

/// payload whose destruction is observable
struct KvRes { id: u8, remove: bool }
static mut KV_DROPS: u32 = 0;
impl Drop for KvRes { fn drop(&mut self) { unsafe { KV_DROPS += 1; } } }
impl Default for KvRes { fn default() -> Self { KvRes { id: 255, remove: false } } }

// @h prop=C08 tier=quick kind=main memsafe=on
// @bounds capacity 0 for both storage kinds: create must return the limit error, never panic; count stays 0
// @funcs ResourceStorage::new, SelfReferentialResourceStorage::new, ResourceController::{insert,try_reserve,len,capacity}
// @catches F11: index panic in atomic_arena::Controller::try_reserve on an arena without slots
#[kani::proof]
#[kani::unwind(3)]
fn c08_capacity_zero_create_is_limit_error() {
	let (mut storage, mut controller) = ResourceStorage::<KvRes>::new(0);
	assert!(controller.capacity() == 0 && controller.len() == 0);
	assert!(controller.try_reserve().is_err(), "capacity 0: the documented limit error, not a panic");
	let r = controller.insert(KvRes { id: 1, remove: false });
	assert!(r.is_err());
	std::mem::forget(r);
	storage.remove_and_add(|x| x.remove);
	assert!(controller.len() == 0);
	let (mut s2, mut c2) = SelfReferentialResourceStorage::<KvRes>::new(0);
	assert!(c2.try_reserve().is_err());
	s2.remove_and_add(|x| x.remove);
	kani::cover!(true, "w:reached");
	std::mem::forget(storage); std::mem::forget(controller); std::mem::forget(s2); std::mem::forget(c2);
}

fn kv_history_body(capacity: usize, depth: usize) {
	let (mut storage, mut controller) = ResourceStorage::<KvRes>::new(capacity);
	let mut alive_or_pending: usize = 0; // created and not yet removed by the audio side
	let mut next: u8 = 0;
	let mut step = 0;
	unsafe { KV_DROPS = 0; }
	while step < depth {
		let op: u8 = kani::any();
		kani::assume(op < 3);
		match op {
			0 => {
				// gameplay thread: create
				let before = controller.len();
				assert!(before == alive_or_pending, "the reported count equals created minus removed");
				let drops_before = unsafe { KV_DROPS };
				let r = controller.insert(KvRes { id: next, remove: false });
				if before < capacity {
					assert!(r.is_ok(), "creation succeeds exactly when fewer than capacity are alive or awaiting removal");
					alive_or_pending += 1;
					next += 1;
				} else {
					assert!(r.is_err(), "otherwise the documented limit error");
					// the rejected resource comes back to the caller inside the error path and is dropped there
				}
				std::mem::forget(r);
				let _ = drops_before;
			}
			1 => {
				// a handle is dropped / a sound finishes: mark one live resource (symbolic choice) for removal
				let which: u8 = kani::any();
				for (_, res) in &mut storage { if res.id == which { res.remove = true; } }
			}
			_ => {
				// audio thread: start of a callback
				let drops_before = unsafe { KV_DROPS };
				let marked = storage.resources.iter().filter(|(_, r)| r.remove).count();
				storage.remove_and_add(|x| x.remove);
				assert!(unsafe { KV_DROPS } == drops_before, "the audio thread never destroys a resource");
				assert!(storage.resources.iter().all(|(_, r)| !r.remove), "a marked resource is gone after the next callback");
				alive_or_pending -= marked;
				assert!(controller.len() == alive_or_pending, "its slot is free again at once");
			}
		}
		assert!(controller.len() <= capacity, "the count never exceeds the capacity");
		step += 1;
	}
	kani::cover!(alive_or_pending == capacity && capacity > 0, "w:full");
	kani::cover!(next as usize >= capacity && capacity > 0, "w:created-up-to-capacity");
	std::mem::forget(storage); std::mem::forget(controller);
}

// @h prop=C08,C01 tier=quick kind=main timeout=600
// @bounds ResourceStorage of capacity 1; every history of depth 3 over {create, mark a resource for removal, audio-side remove_and_add}
// @funcs ResourceStorage::{new,remove_and_add}, ResourceController::{insert,try_reserve,insert_with_key,remove_unused,len}, atomic_arena::{Arena,Controller}, rtrb::{Producer::push,Consumer::pop}
// @catches capacity off by one; slot not freed by removal; unused ring too small (panic on the audio thread); resource dropped on the audio thread; count drifting
#[kani::proof]
#[kani::unwind(6)]
fn c08_storage_history_capacity_1() { kv_history_body(1, 3); }

// @h prop=C08,C01 tier=experimental kind=main timeout=1750
// @note out of memory in symbolic execution at capacity 2 / depth 4: NOT decided, never run
// @bounds ResourceStorage of capacity 2; every history of depth 4
// @funcs ResourceStorage::{new,remove_and_add}, ResourceController::*
#[kani::proof]
#[kani::unwind(6)]
fn c08_storage_history_capacity_2() { kv_history_body(2, 4); }

struct KvPlain { id: u8, remove: bool }
impl Default for KvPlain { fn default() -> Self { KvPlain { id: 255, remove: false } } }

// @h prop=C08,C17 tier=quick kind=main timeout=600
// @bounds SelfReferentialResourceStorage (clocks / modulators / listeners) holding three picked-up resources; ANY subset marked for removal (3 symbolic marks); one audio-side remove_and_add
// @funcs SelfReferentialResourceStorage::{remove_and_add,remove_unused}, atomic_arena::Arena::remove, Controller::{free,len}
// @catches the sweep skipping the entry after a removed one (two adjacent drops then need two callbacks)
#[kani::proof]
#[kani::unwind(5)]
fn c08_self_referential_removes_every_marked_resource_in_one_callback() {
	let (m0, m1, m2): (bool, bool, bool) = (kani::any(), kani::any(), kani::any());
	let (mut storage, controller) = SelfReferentialResourceStorage::<KvPlain>::new(3);
	// three resources already picked up by the audio thread (placed directly: the rings are exercised by the history harness)
	let k0 = controller.try_reserve().unwrap();
	let k1 = controller.try_reserve().unwrap();
	let k2 = controller.try_reserve().unwrap();
	storage.resources.insert_with_key(k0, KvPlain { id: 0, remove: m0 }).ok().unwrap();
	storage.resources.insert_with_key(k1, KvPlain { id: 1, remove: m1 }).ok().unwrap();
	storage.resources.insert_with_key(k2, KvPlain { id: 2, remove: m2 }).ok().unwrap();
	storage.keys.push(k0); storage.keys.push(k1); storage.keys.push(k2);
	storage.remove_and_add(|x| x.remove);
	let left = 3 - (m0 as usize) - (m1 as usize) - (m2 as usize);
	assert!(controller.len() == left, "every dropped resource is removed at the next callback, not one per callback");
	assert!(storage.keys.len() == left);
	// NOT decided here: that the survivors keep their creation (= update) order. Reading the contents of
	// `keys` after Vec::remove's memmove does not finish in CBMC (even with concrete marks: > 280 s).
	kani::cover!(m0 && m1 && !m2, "w:two-adjacent-dropped");
	kani::cover!(m0 && !m1 && !m2, "w:oldest-dropped");
	std::mem::forget(storage); std::mem::forget(controller);
}

// @h prop=C08 tier=quick kind=main memsafe=on
// @bounds generational keys: a key of a removed resource, after its slot has been reused, resolves to nothing
// @funcs atomic_arena::Arena::{insert_with_key,remove,get}, Controller::try_reserve
// @catches stale ids resolving to the newer resource in the same slot
#[kani::proof]
#[kani::unwind(3)]
fn c08_stale_key_misses_after_slot_reuse() {
	let (mut storage, mut controller) = ResourceStorage::<KvRes>::new(1);
	let old = controller.insert(KvRes { id: 7, remove: true }).ok().unwrap();
	storage.remove_and_add(|_| false);
	assert!(storage.get_mut(old).is_some());
	storage.remove_and_add(|x| x.remove);
	assert!(storage.get_mut(old).is_none());
	let new = controller.insert(KvRes { id: 8, remove: false }).ok().unwrap();
	storage.remove_and_add(|x| x.remove);
	assert!(new != old);
	assert!(storage.get_mut(old).is_none(), "an id of a removed resource never resolves to the newer resource that reuses its slot");
	assert!(storage.get_mut(new).map(|r| r.id) == Some(8));
	kani::cover!(true, "w:reached");
	std::mem::forget(storage); std::mem::forget(controller);
}

// ---- create path vs. audio step, interleaved at the yield points (cfg(kira_verif)) -----------------
static mut KV_STORAGE: *mut ResourceStorage<KvPlain> = std::ptr::null_mut();
static mut KV_YIELD_AT: u32 = 0;
static mut KV_YIELDED: bool = false;
fn kv_yield(id: u32) {
	unsafe {
		if id == KV_YIELD_AT && !KV_YIELDED && !KV_STORAGE.is_null() {
			KV_YIELDED = true;
			// the audio thread's whole step runs while the gameplay thread sits between draining the unused ring and pushing the new resource
			(*KV_STORAGE).remove_and_add(|x| x.remove);
		}
	}
}

// @h prop=C08 tier=quick kind=main timeout=900
// @bounds ResourceStorage of capacity 2 with two live resources of which any subset is marked for removal (symbolic), optionally already swept by an earlier callback; the gameplay thread creates a resource while the audio thread's whole remove_and_add runs at the yield point between the controller's drain of the unused ring and its push; then one more audio step
// @funcs ResourceController::{insert,try_reserve,insert_with_key,remove_unused}, ResourceStorage::remove_and_add, atomic_arena::Controller::{try_reserve,free}, rtrb push/pop
// @assume sequentially consistent atomics; interleaving at whole-step granularity via the cfg(kira_verif) yield point (the rings' and the arena's own atomics are dependency code and are not interleaved)
// @catches a ring sized or drained such that "unused resource producer is full" / "new resource producer full" / "error inserting resource" can fire on some schedule; accounting drifting when removal and creation overlap
#[kani::proof]
#[kani::unwind(5)]
#[kani::stub(crate::verif_hooks::kani_yield, kv_yield)]
fn c08_create_overlapping_the_audio_step_never_panics() {
	let (mut storage, mut controller) = ResourceStorage::<KvPlain>::new(2);
	let two = true;
	let (m0, m1): (bool, bool) = (kani::any(), kani::any());
	// two live resources, placed directly (the rings are exercised by the create below)
	let k0 = controller.try_reserve().unwrap();
	let k1 = controller.try_reserve().unwrap();
	let r = storage.resources.insert_with_key(k0, KvPlain { id: 0, remove: m0 }); std::mem::forget(r);
	let r = storage.resources.insert_with_key(k1, KvPlain { id: 1, remove: m1 }); std::mem::forget(r);
	// a previous callback has already removed nothing; now one of them may finish between the reserve attempt and the push:
	// to have a free slot at all, the audio thread first removes the marked ones of an EARLIER step when m0 is set
	let pre: bool = kani::any();
	if pre { storage.remove_and_add(|x| x.remove); }
	let alive = 2 - if pre { (m0 as usize) + (m1 as usize) } else { 0 };
	assert!(controller.len() == alive);
	unsafe { KV_STORAGE = &mut storage; KV_YIELD_AT = crate::verif_hooks::CONTROLLER_INSERT_AFTER_DRAIN; KV_YIELDED = false; }
	let r = controller.insert(KvPlain { id: 2, remove: false });
	let created = r.is_ok();
	std::mem::forget(r);
	unsafe { KV_STORAGE = std::ptr::null_mut(); }
	assert!(created == (alive < 2), "creation succeeds exactly when fewer than capacity were alive or awaiting removal when it was attempted");
	storage.remove_and_add(|x| x.remove);
	let left = 2 - (m0 as usize) - (m1 as usize) + (created as usize);
	assert!(controller.len() == left && left <= 2, "the count equals created minus removed after the next callback, whatever the overlap");
	let created2 = false;
	kani::cover!(created && m0 && two && m1, "w:two-removed-during-the-create");
	kani::cover!(!created, "w:full-at-create");
	std::mem::forget(storage); std::mem::forget(controller);
}

// @h prop=C08,C01 tier=quick kind=main timeout=900
// @bounds ResourceStorage of capacity 1 through TWO full life cycles (create, handle dropped, audio-side sweep; create again, dropped, sweep): one more removal than the capacity of the queue that carries removed resources back to the gameplay thread. Each creation goes through insert() or through try_reserve() + insert_with_key() (symbolic, as clocks / modulators / listeners / send tracks do)
// @funcs ResourceController::{insert,try_reserve,insert_with_key,remove_unused,len}, ResourceStorage::remove_and_add
// @catches the queue of removed resources being drained on only one of the two creation paths: after `capacity` removals the audio thread can no longer hand resources back (panic "unused resource producer is full" in the callback, or dropped resources never freed and creation failing with nothing alive)
#[kani::proof]
#[kani::unwind(4)]
fn c08_two_life_cycles_through_either_creation_path() {
	let (mut storage, mut controller) = ResourceStorage::<KvRes>::new(1);
	let mut cycle = 0;
	while cycle < 2 {
		let reserve_first: bool = kani::any();
		assert!(controller.len() == 0, "nothing alive: the slot is free");
		if reserve_first {
			let key = match controller.try_reserve() { Ok(k) => k, Err(_) => panic!("creation must succeed while nothing is alive") };
			controller.insert_with_key(key, KvRes { id: cycle as u8, remove: false });
		} else {
			let r = controller.insert(KvRes { id: cycle as u8, remove: false });
			assert!(r.is_ok(), "creation must succeed while nothing is alive");
			std::mem::forget(r);
		}
		storage.remove_and_add(|x| x.remove); // callback: picked up
		for (_, res) in &mut storage { res.remove = true; } // handle dropped
		storage.remove_and_add(|x| x.remove); // next callback: must hand it back without panicking
		assert!(storage.resources.iter().count() == 0, "a marked resource is gone after the next callback");
		assert!(controller.len() == 0, "and its slot is free again");
		cycle += 1;
	}
	kani::cover!(true, "witness");
	std::mem::forget(storage); std::mem::forget(controller);
}
