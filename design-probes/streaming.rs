use crate::clock::Clock;
use crate::listener::Listener;
use crate::modulator::Modulator;
use crate::sound::streaming::{Decoder, StreamingSoundData};
use crate::sound::static_sound::{StaticSoundData, StaticSoundSettings};
use crate::sound::SoundData;
use atomic_arena::Arena;
use decode_scheduler::NextStep;

struct ModelDecoder { n: usize, cur: usize, packet: usize, seek_gran: usize }
impl Decoder for ModelDecoder {
	type Error = ();
	fn sample_rate(&self) -> u32 { 1 }
	fn num_frames(&self) -> usize { self.n }
	fn decode(&mut self) -> Result<Vec<Frame>, ()> {
		let mut v = Vec::with_capacity(3);
		let mut k = 0;
		while k < self.packet && self.cur < self.n {
			v.push(Frame::from_mono((self.cur + 1) as f32));
			self.cur += 1;
			k += 1;
		}
		Ok(v)
	}
	fn seek(&mut self, index: usize) -> Result<usize, ()> {
		let i = index / self.seek_gran * self.seek_gran;
		self.cur = i;
		Ok(i)
	}
}

#[kani::proof]
#[kani::unwind(8)]
fn streaming_equals_static_rate1() {
	let clocks: Arena<Clock> = Arena::new(0);
	let modulators: Arena<Box<dyn Modulator>> = Arena::new(0);
	let listeners: Arena<Listener> = Arena::new(0);
	let info = Info::new(&clocks, &modulators, &listeners, None);
	let n: usize = 3;
	let packet: usize = kani::any();
	kani::assume(packet >= 1 && packet <= 3);
	let start: usize = kani::any();
	kani::assume(start < n);
	let sdata = StaticSoundData {
		sample_rate: 1,
		frames: (0..n).map(|i| Frame::from_mono((i + 1) as f32)).collect(),
		settings: StaticSoundSettings::new().start_position(crate::sound::PlaybackPosition::Samples(start)),
		slice: None,
	};
	let (mut st, _sh) = sdata.into_sound().unwrap();
	let data = StreamingSoundData::from_decoder(ModelDecoder { n, cur: 0, packet, seek_gran: 1 })
		.start_position(crate::sound::PlaybackPosition::Samples(start));
	let (mut sound, _handle, mut scheduler) = data.split().unwrap();
	// decoder keeps ahead: run until End
	let mut g = 0;
	while g < 5 {
		match scheduler.run() { Ok(NextStep::Continue) => {}, _ => break }
		g += 1;
	}
	let mut k = 0;
	while k < 5 {
		sound.on_start_processing();
		st.on_start_processing();
		let a = sound.process_one(1.0, &info);
		let b = st.process_one(1.0, &info);
		assert!(a == b);
		assert!(sound.finished() == st.finished());
		k += 1;
	}
	std::mem::forget(sound); std::mem::forget(scheduler); std::mem::forget(_handle); std::mem::forget(st); std::mem::forget(_sh);
}

#[kani::proof]
#[kani::unwind(6)]
fn scheduler_emits_transport_order() {
	let n: usize = 3;
	let packet: usize = 2;
	let gran: usize = 2;
	let start: usize = kani::any();
	kani::assume(start < n);
	let data = StreamingSoundData::from_decoder(ModelDecoder { n, cur: 0, packet, seek_gran: gran })
		.start_position(crate::sound::PlaybackPosition::Samples(start));
	let (mut sound, handle, mut scheduler) = data.split().unwrap();
	let mut g = 0;
	let mut ended = false;
	while g < 4 {
		match scheduler.run() { Ok(NextStep::Continue) => {}, Ok(NextStep::End) => { ended = true; break }, _ => break }
		g += 1;
	}
	assert!(ended);
	assert!(sound.shared.reached_end());
	// seed frame
	let f0 = sound.frame_consumer.pop().unwrap();
	assert!(f0.frame == Frame::ZERO);
	let mut i = start;
	while i < n {
		let f = sound.frame_consumer.pop().unwrap();
		assert!(f.index == i);
		assert!(f.frame == Frame::from_mono((i + 1) as f32));
		i += 1;
	}
	assert!(sound.frame_consumer.pop().is_err());
	std::mem::forget(sound); std::mem::forget(scheduler); std::mem::forget(handle);
}
