#!/usr/bin/env python3
"""Engine E2: MIR -> SMT-LIB2 for loop-free float kernels that Kani cannot be trusted with.

Kani 0.68 evaluates every float `%` to 0.0, so `Lfo::update` (`self.phase %= 1.0`) can neither be proved nor
refuted through it. This encoder
  1. dumps the MIR of /repo's CURRENT crates/kira (scratch copy, nightly toolchain, -Zunpretty=mir),
  2. parses the body of `<Lfo as Modulator>::update` (straight-line basic blocks with calls),
  3. executes it symbolically into SMT-LIB2 over (_ FloatingPoint 11 53), RNE:
       Add/Sub/Mul/Div/Neg on f64; `Rem(x, const 1f64)` as  x - roundToIntegral(RTZ, x)  (exact for finite x);
       field places ((*_1).N: T) are memory cells; `Parameter::update(&mut field, ..)` only touches that field
       (a &mut to a disjoint field; its effect on the parameter is havocked); `Parameter::value(&field)` is a fresh
       symbol per field; `Waveform::value(w, phase)` is a fresh symbol w with  -1 <= w <= 1  when phase in [0,1)
       (that fact is decided by the E1 harness c17_waveforms_stay_in_range_and_hit_their_breakpoints),
  4. asserts the negated property and asks z3 (and cvc5 as a cross-check); unsat = holds for every value in the
     stated bounds, sat = a concrete input, which is replayed against the REAL code natively (a generated
     #[cfg(test)] module in the scratch copy) before anything is reported.
Any statement form it does not know makes the run INCONCLUSIVE (exit 2), never a pass.
The translator is validated on every run: concrete vectors are pushed through the encoding (solver model evaluation)
and through Python's IEEE doubles (math.fmod), and must agree bit for bit.

usage: mirsmt.py <scratch-dir> [--json out.json]     exit 0 held / 1 violation replayed natively / 2 inconclusive
"""
import json
import math
import os
import re
import shutil
import struct
import subprocess
import sys
import time

REPO = os.environ.get("KV_REPO", "/repo")
ENV = dict(os.environ, CARGO_NET_OFFLINE="true")
ENV.pop("RUSTUP_TOOLCHAIN", None)

FP = "(_ FloatingPoint 11 53)"


def bits(x):
    return struct.unpack("<Q", struct.pack("<d", x))[0]


def fp_const(x):
    b = bits(x)
    return "(fp #b%s #b%s #b%s)" % (format(b >> 63, "01b"), format((b >> 52) & 0x7FF, "011b"), format(b & ((1 << 52) - 1), "052b"))


def from_bits_str(sign, exp, man):
    b = (int(sign, 2) << 63) | (int(exp, 2) << 52) | int(man, 2)
    return struct.unpack("<d", struct.pack("<Q", b))[0]


class Unsupported(Exception):
    pass


def dump_mir(scratch):
    crate = os.path.join(scratch, "kira_mir")
    subprocess.check_call(["rsync", "-a", "--delete", "--exclude", "target", os.path.join(REPO, "crates", "kira") + "/", crate + "/"])
    shutil.copy(os.path.join(REPO, "Cargo.lock"), os.path.join(crate, "Cargo.lock"))
    with open(os.path.join(crate, "Cargo.toml"), "a") as f:
        f.write("\n[workspace]\n")
    out = os.path.join(scratch, "kira.mir")
    with open(out, "w") as fo:
        r = subprocess.run(["cargo", "+nightly", "rustc", "--offline", "--lib", "--no-default-features", "--", "-Zunpretty=mir",
                            "-C", "debug-assertions=off"], cwd=crate, stdout=fo, stderr=subprocess.PIPE, env=ENV, text=True)
    if r.returncode != 0 or os.path.getsize(out) == 0:
        raise Unsupported("MIR dump failed: " + r.stderr[-400:])
    return open(out).read(), crate


def function_body(mir, header_re):
    m = re.search(header_re, mir, re.M)
    if not m:
        raise Unsupported("function not found in MIR: " + header_re)
    start = m.start()
    end = mir.index("\n}\n", start)
    return mir[start:end + 3]


def parse_blocks(body):
    blocks = {}
    for m in re.finditer(r"^    (bb\d+)(?: \(cleanup\))?: \{\n(.*?)^    \}", body, re.M | re.S):
        stmts = [l.strip() for l in m.group(2).strip().split("\n") if l.strip()]
        blocks[m.group(1)] = stmts
    return blocks


class LfoUpdateEncoder:
    """symbolic execution of the straight-line MIR of Lfo::update"""

    def __init__(self, body):
        self.body = body
        self.blocks = parse_blocks(body)
        self.decls = []      # (name, sort)
        self.asserts = []    # side constraints from the environment model
        self.locals = {}     # _N -> term | ("ref", place)
        self.mem = {}        # place text -> term
        self.fresh = 0
        self.trace = []
        self.param_value_of = {}
        self.waveform_calls = []

    def new(self, hint, sort=FP):
        self.fresh += 1
        n = "%s_%d" % (hint, self.fresh)
        self.decls.append((n, sort))
        return n

    def place(self, text):
        return re.sub(r"\s+", " ", text.strip())

    def operand(self, text):
        text = text.strip()
        m = re.match(r"(?:copy|move) (.*)", text)
        if m:
            p = self.place(m.group(1))
            if re.fullmatch(r"_\d+", p):
                if p not in self.locals:
                    raise Unsupported("read of unset local " + p)
                return self.locals[p]
            if p not in self.mem:
                raise Unsupported("read of unknown place " + p)
            return self.mem[p]
        m = re.match(r"const (-?[0-9.eE+-]+)f64", text)
        if m:
            return fp_const(float(m.group(1)))
        raise Unsupported("operand: " + text)

    def assign(self, lhs, term):
        p = self.place(lhs)
        if re.fullmatch(r"_\d+", p):
            self.locals[p] = term
        else:
            self.mem[p] = term

    def run(self, init_mem):
        self.mem.update(init_mem)
        bb = "bb0"
        visited = set()
        while True:
            if bb in visited:
                raise Unsupported("loop in MIR at " + bb)
            visited.add(bb)
            if bb not in self.blocks:
                raise Unsupported("unknown block " + bb)
            nxt = None
            for st in self.blocks[bb]:
                st = st.rstrip(";")
                self.trace.append(st)
                if st == "return":
                    return
                if st.startswith("StorageLive") or st.startswith("StorageDead") or st.startswith("nop"):
                    continue
                m = re.match(r"(.+?) = (.+?) -> \[return: (bb\d+), unwind[^\]]*\]$", st)
                if m:
                    self.call(m.group(1), m.group(2))
                    nxt = m.group(3)
                    continue
                m = re.match(r"goto -> (bb\d+)$", st)
                if m:
                    nxt = m.group(1)
                    continue
                m = re.match(r"(.+?) = (.+)$", st)
                if m:
                    self.rvalue(m.group(1), m.group(2))
                    continue
                raise Unsupported("statement: " + st)
            if nxt is None:
                raise Unsupported("block %s has no successor" % bb)
            bb = nxt

    def rvalue(self, lhs, rhs):
        rhs = rhs.strip()
        m = re.match(r"&(?:mut )?(.+)$", rhs)
        if m:
            self.assign(lhs, ("ref", self.place(m.group(1))))
            return
        m = re.match(r"(Add|Sub|Mul|Div|Rem)\((.+), (.+)\)$", rhs)
        if m:
            op, a, b = m.group(1), self.operand(m.group(2)), self.operand(m.group(3))
            if op == "Rem":
                if b != fp_const(1.0):
                    raise Unsupported("Rem with a divisor other than const 1f64")
                t = "(fp.sub RNE %s (fp.roundToIntegral RTZ %s))" % (a, a)
            else:
                t = "(fp.%s RNE %s %s)" % ({"Add": "add", "Sub": "sub", "Mul": "mul", "Div": "div"}[op], a, b)
            self.assign(lhs, t)
            return
        m = re.match(r"Neg\((.+)\)$", rhs)
        if m:
            self.assign(lhs, "(fp.neg %s)" % self.operand(m.group(1)))
            return
        m = re.match(r"(copy|move) (.+)$", rhs)
        if m:
            p = self.place(m.group(2))
            if "Waveform" in lhs or "Waveform" in p or p.endswith("modulator::lfo::Waveform)"):
                self.assign(lhs, ("waveform", p))
                return
            self.assign(lhs, self.operand(rhs))
            return
        raise Unsupported("rvalue: " + rhs)

    def call(self, lhs, callee):
        m = re.match(r"(.+?)\((.*)\)$", callee.strip())
        if not m:
            raise Unsupported("call: " + callee)
        fn, args = m.group(1), [a.strip() for a in m.group(2).split(", ")] if m.group(2) else []
        if fn.endswith("Parameter::update"):
            ref = self.operand(args[0])
            if not (isinstance(ref, tuple) and ref[0] == "ref"):
                raise Unsupported("Parameter::update on a non-field")
            # a &mut to ONE parameter field: every other cell is untouched; the parameter's own value is havocked
            self.param_value_of.pop(ref[1], None)
            self.assign(lhs, self.new("param_update_result", "Bool"))
            return
        if fn.endswith("Parameter::value"):
            ref = self.operand(args[0])
            if not (isinstance(ref, tuple) and ref[0] == "ref"):
                raise Unsupported("Parameter::value on a non-field")
            if ref[1] not in self.param_value_of:
                self.param_value_of[ref[1]] = self.new("param_value")
            self.assign(lhs, self.param_value_of[ref[1]])
            return
        if fn.endswith("Waveform::value"):
            phase = self.operand(args[1])
            w = self.new("waveform_value")
            # E1 (c17_waveforms_stay_in_range_and_hit_their_breakpoints): every waveform is in [-1,1] for a phase in [0,1)
            in01 = "(and (fp.leq %s %s) (fp.lt %s %s))" % (fp_const(0.0), phase, phase, fp_const(1.0))
            self.asserts.append("(=> %s (and (fp.leq %s %s) (fp.leq %s %s)))" % (in01, fp_const(-1.0), w, w, fp_const(1.0)))
            self.waveform_calls.append((phase, w))
            self.assign(lhs, w)
            return
        raise Unsupported("call to " + fn)


def smt(decls, asserts, goal_negated, get=None):
    s = ["(set-logic ALL)", "(set-option :produce-models true)"]
    for n, so in decls:
        s.append("(declare-const %s %s)" % (n, so))
    for a in asserts:
        s.append("(assert %s)" % a)
    s.append("(assert %s)" % goal_negated)
    s.append("(check-sat)")
    if get:
        s.append("(get-value (%s))" % " ".join(get))
    return "\n".join(s) + "\n"


def run_solver(cmd, text, timeout):
    t0 = time.time()
    try:
        r = subprocess.run(cmd, input=text, capture_output=True, text=True, timeout=timeout)
    except subprocess.TimeoutExpired:
        return "timeout", "", time.time() - t0
    out = r.stdout
    if "(error" in out or "(error" in r.stderr:
        return "error", out + r.stderr, time.time() - t0
    first = out.strip().split("\n")[0] if out.strip() else ""
    return first, out, time.time() - t0


def _bitstr(tok):
    return tok[2:] if tok.startswith("#b") else "".join(format(int(c, 16), "04b") for c in tok[2:])


def parse_values(out):
    vals = {}
    for m in re.finditer(r"\((\w+) \(fp (#b[01]) (#[bx][0-9a-fA-F]+) (#[bx][0-9a-fA-F]+)\)\)", out):
        vals[m.group(1)] = from_bits_str(_bitstr(m.group(2)), _bitstr(m.group(3)), _bitstr(m.group(4)))
    for m in re.finditer(r"\((\w+) \(_ ([+-])(zero|oo) 11 53\)\)", out):
        vals[m.group(1)] = {"zero": 0.0, "oo": math.inf}[m.group(3)] * (1 if m.group(2) == "+" else -1)
    for m in re.finditer(r"\((\w+) \(_ NaN 11 53\)\)", out):
        vals[m.group(1)] = math.nan
    return vals


def main(argv):
    scratch = argv[1]
    os.makedirs(scratch, exist_ok=True)
    report = {"engine": "E2 mirsmt (MIR -> SMT-LIB2, z3 %s / cvc5)" % subprocess.run(["z3", "--version"], capture_output=True, text=True).stdout.strip(),
              "function": "<Lfo as Modulator>::update", "queries": [], "translation_validation": [], "inconclusive": [], "violations": []}
    rc = 0
    try:
        mir, crate = dump_mir(scratch)
        body = function_body(mir, r"^fn lfo::<impl at src/modulator/lfo\.rs:[0-9: ]+>::update\(_1: &mut Lfo, _2: f64, _3: &Info<'_>\) -> \(\) \{")
        report["mir_statements"] = len([l for l in body.split("\n") if l.strip().endswith(";")])
        # field numbers from the struct order in the MIR places: phase and value are the two f64 cells written
        enc = LfoUpdateEncoder(body)
        written = sorted(set(re.findall(r"\(\(\*_1\)\.(\d+): f64\) =", body)))
        if len(written) != 2:
            raise Unsupported("expected exactly two f64 fields of Lfo to be written (phase, value), found %s" % written)
        phase_place, value_place = "((*_1).%s: f64)" % written[0], "((*_1).%s: f64)" % written[1]
        enc.decls += [("phase0", FP), ("value0", FP), ("dt", FP)]
        enc.locals["_2"] = "dt"
        enc.locals["_1"] = ("ref", "self")
        enc.locals["_3"] = ("ref", "info")
        wf = re.findall(r"\(\(\*_1\)\.(\d+): modulator::lfo::Waveform\)", body)
        init = {phase_place: "phase0", value_place: "value0"}
        for w in set(wf):
            init["((*_1).%s: modulator::lfo::Waveform)" % w] = ("waveform", "self.waveform")
        enc.run(init)
        phase1, value1 = enc.mem[phase_place], enc.mem[value_place]
        params = list(enc.param_value_of.values())
        if len(params) != 3 or len(enc.waveform_calls) != 1:
            raise Unsupported("expected three parameter reads (frequency, offset, amplitude) and one waveform evaluation")
        report["encoded"] = {"phase_after": phase1, "value_after": value1, "fresh_symbols": [d[0] for d in enc.decls]}
        # which parameter is the frequency: the one multiplied with dt into the phase
        freq = [p for p in params if p in phase1]
        if len(freq) != 1:
            raise Unsupported("cannot identify the frequency parameter in the phase expression")
        freq = freq[0]
        wsym = enc.waveform_calls[0][1]
        # value1 = Add(offset, Mul(amplitude, w)) : identify offset / amplitude syntactically
        m = re.match(r"\(fp\.add RNE (\w+) \(fp\.mul RNE (\w+) (\w+)\)\)$", value1)
        if not m or m.group(3) != wsym:
            raise Unsupported("value is not offset + amplitude * waveform(phase): " + value1)
        offset, amp = m.group(1), m.group(2)
        Z, ONE = fp_const(0.0), fp_const(1.0)
        fin = lambda t: "(not (or (fp.isNaN %s) (fp.isInfinite %s)))" % (t, t)
        pre = ["(fp.leq %s phase0)" % Z, "(fp.lt phase0 %s)" % ONE,           # phase in [0,1)
               "(fp.leq %s dt)" % Z, "(fp.leq dt %s)" % ONE,                  # 0 <= dt <= 1 s
               "(fp.leq %s %s)" % (Z, freq), fin(freq),                        # finite non-negative frequency
               fin("(fp.mul RNE dt %s)" % freq),
               fin(offset), fin(amp)]
        absamp = "(fp.abs %s)" % amp
        # The bound |a*w| <= |a| for |w| <= 1 is a fact about IEEE multiplication (rounding is monotone), not about kira;
        # no solver here decides it on binary64 within 15 minutes. It is taken as an axiom (validated natively by
        # kv/validate_stubs.py): the product is replaced by a fresh symbol constrained by it.
        prod = "prod_amp_w"
        decls_q = enc.decls + [(prod, FP)]
        asserts_q = enc.asserts + ["(=> (and %s (fp.leq %s %s) (fp.leq %s %s)) (and (not (fp.isNaN %s)) (fp.leq (fp.abs %s) (fp.abs %s))))"
                                   % (fin(amp), fp_const(-1.0), wsym, wsym, ONE, prod, prod, amp)]
        value1_abs = "(fp.add RNE %s %s)" % (offset, prod)
        queries = [
            ("phase stays in [0,1) for every phase in [0,1), 0 <= dt <= 1, finite frequency >= 0",
             "(not (and (fp.leq %s %s) (fp.lt %s %s)))" % (Z, phase1, phase1, ONE)),
            ("phase advances by dt*frequency modulo 1: equals the sum when it is below 1, the sum minus its whole part otherwise, and never NaN",
             "(let ((s (fp.add RNE phase0 (fp.mul RNE dt %s)))) (not (and (not (fp.isNaN %s)) (=> (fp.lt s %s) (fp.eq %s s)) (=> (and (fp.leq %s s) (fp.lt s %s)) (fp.eq %s (fp.sub RNE s %s))))))"
             % (freq, phase1, ONE, phase1, ONE, fp_const(2.0), phase1, ONE)),
        ]
        # NOT asked of the solvers: "value within offset +/- |amplitude|". Neither z3 4.8/5.1 nor cvc5 1.0 decides even the
        # monotonicity of one binary64 addition in 5 minutes. What IS established: the value expression is, syntactically,
        # offset + amplitude * waveform(phase') (checked above on the MIR), the waveform is in [-1,1] for a phase in [0,1) (E1),
        # and phase' is in [0,1) (query 1); the bound then follows from the monotonicity of IEEE rounding (validated by sampling).
        report["structural"] = {"value_is": "offset + amplitude * waveform(phase_after)", "offset": offset, "amplitude": amp, "waveform_value": wsym,
                                "waveform_evaluated_at_the_new_phase": enc.waveform_calls[0][0] == phase1}
        if not report["structural"]["waveform_evaluated_at_the_new_phase"]:
            report["violations"].append({"claim": "the waveform is evaluated at the phase AFTER the wrap", "model": {}})
            rc = 1
        syms = ["phase0", "dt", freq, offset, amp, wsym]
        for name, negated in queries:
            text = smt(decls_q, asserts_q + pre, negated)
            open(os.path.join(scratch, "q%d.smt2" % (len(report["queries"]) + 1)), "w").write(text)
            res, out, secs = run_solver(["z3", "-in", "-T:600"], text, 650)
            if res == "sat":
                res, out, s2 = run_solver(["z3", "-in", "-T:600"], smt(decls_q, asserts_q + pre, negated, get=syms), 650)
                secs += s2
            q = {"claim": name, "z3": res, "z3_s": round(secs, 2)}
            if res == "unsat":
                r2, _o2, s2 = run_solver(["cvc5", "--lang", "smt2", "--tlimit=300000", "--fp-exp"], text, 320)
                q["cvc5"], q["cvc5_s"] = r2, round(s2, 2)
                if r2 == "sat":
                    report["inconclusive"].append("solvers disagree on: " + name)
                    rc = max(rc, 2)
            elif res == "sat":
                vals = parse_values(out)
                q["model"] = {k: (v, "0x%016x" % bits(v)) for k, v in vals.items()}
                ok = replay_native(crate, scratch, vals, freq, offset, amp, wsym, name)
                q["native_replay"] = ok
                if ok == "reproduces":
                    report["violations"].append({"claim": name, "model": q["model"]})
                    rc = 1 if rc != 1 else rc
                else:
                    report["inconclusive"].append("counterexample of the encoding does not reproduce natively (%s): %s" % (ok, name))
                    rc = max(rc, 2) if rc != 1 else 1
            else:
                report["inconclusive"].append("%s: solver answered %r" % (name, res))
                rc = max(rc, 2) if rc != 1 else 1
            report["queries"].append(q)
        # ---- translation validation: concrete vectors through the encoding (solver model evaluation) and through the REAL
        # compiled function (native test in the scratch copy): bit-for-bit agreement, else the encoder is wrong -> inconclusive
        vectors = [(0.0, 0.125, 2.0), (0.9, 0.125, 2.0), (0.75, 0.5, 0.5), (0.999999, 1.0, 1e6), (0.3, 0.0078125, 440.0), (0.5, 1.0, 0.0), (2 ** -1074, 1.0, 1.0)]
        native = native_eval(crate, vectors)
        for i, (p0, dt, f) in enumerate(vectors):
            cons = ["(= phase0 %s)" % fp_const(p0), "(= dt %s)" % fp_const(dt), "(= %s %s)" % (freq, fp_const(f))]
            text = smt(enc.decls + [("probe", FP)], enc.asserts + cons + ["(= probe %s)" % phase1], "true", get=["probe"])
            res, out, secs = run_solver(["z3", "-in", "-T:60"], text, 70)
            got = parse_values(out).get("probe")
            want = native.get(i)
            ok = res == "sat" and got is not None and want is not None and (bits(got) == bits(want) or (math.isnan(got) and math.isnan(want)))
            report["translation_validation"].append({"phase": p0, "dt": dt, "frequency": f, "encoding": got, "real_code": want, "agree": ok})
            if not ok:
                report["inconclusive"].append("translation validation: encoding and real code disagree on %r (%r vs %r)" % ((p0, dt, f), got, want))
                rc = max(rc, 2) if rc != 1 else 1
    except Unsupported as e:
        report["inconclusive"].append("E2 cannot encode the current source: %s" % e)
        rc = 2
    if "--json" in argv:
        json.dump(report, open(argv[argv.index("--json") + 1], "w"), indent=1, default=str)
    for q in report["queries"]:
        print("  [E2 %-7s] %s (z3 %.1fs%s)" % (q["z3"], q["claim"][:90], q["z3_s"], ", cvc5 %s" % q.get("cvc5") if "cvc5" in q else ""))
    for s in report["inconclusive"]:
        print("E2-INCONCLUSIVE " + s)
    for v in report["violations"]:
        print("E2-VIOLATION " + v["claim"])
    return rc


def native_eval(crate, vectors):
    """phase after one real Lfo::update for each (phase, dt, frequency) vector"""
    src = os.path.join(crate, "src", "modulator", "lfo.rs")
    rows = "".join("\t\t(f64::from_bits(0x%016x), f64::from_bits(0x%016x), f64::from_bits(0x%016x)),\n" % (bits(p), bits(d), bits(f)) for p, d, f in vectors)
    test = '''
#[cfg(test)]
mod kv_e2_tv {
	use super::*;
	#[test]
	fn tv() {
		let vectors = [
%s		];
		for (i, (p, dt, f)) in vectors.iter().enumerate() {
			let (w, r) = command_writers_and_readers();
			std::mem::forget(w);
			let b = LfoBuilder::new().waveform(Waveform::Saw).frequency(*f);
			let mut lfo = Lfo::new(&b, r, Arc::new(LfoShared::new()));
			lfo.phase = *p;
			let info = crate::info::MockInfoBuilder::new().build();
			lfo.update(*dt, &info);
			println!("KV_TV {} {:016x}", i, lfo.phase.to_bits());
		}
	}
}
''' % rows
    txt = open(src).read()
    if "mod kv_e2_tv" not in txt:
        open(src, "a").write(test)
    r = subprocess.run(["cargo", "test", "--offline", "--lib", "--no-default-features", "kv_e2_tv", "--", "--nocapture"], cwd=crate, capture_output=True, text=True, env=ENV)
    out = {}
    for m in re.finditer(r"KV_TV (\d+) ([0-9a-f]{16})", r.stdout + r.stderr):
        out[int(m.group(1))] = struct.unpack("<d", struct.pack("<Q", int(m.group(2), 16)))[0]
    return out


def replay_native(crate, scratch, vals, freq, offset, amp, wsym, claim):
    """Run the REAL Lfo::update on the model's inputs (saw wave: value in [-1,1] for every phase) and test the claim."""
    def lit(x):
        return "f64::from_bits(0x%016x)" % bits(x)
    src = os.path.join(crate, "src", "modulator", "lfo.rs")
    test = '''
#[cfg(test)]
mod kv_e2_replay {
	use super::*;
	#[test]
	fn replay() {
		let (w, r) = command_writers_and_readers();
		std::mem::forget(w);
		let b = LfoBuilder::new().waveform(Waveform::Saw).frequency(%s).amplitude(%s).offset(%s);
		let mut lfo = Lfo::new(&b, r, Arc::new(LfoShared::new()));
		lfo.phase = %s;
		let info = crate::info::MockInfoBuilder::new().build();
		lfo.update(%s, &info);
		let a = (%s).abs();
		assert!(lfo.phase >= 0.0 && lfo.phase < 1.0, "phase left [0,1): {}", lfo.phase);
		assert!(lfo.value >= %s - a && lfo.value <= %s + a, "value left offset +/- |amplitude|: {}", lfo.value);
	}
}
''' % (lit(vals.get(freq, 0.0)), lit(vals.get(amp, 0.0)), lit(vals.get(offset, 0.0)), lit(vals.get("phase0", 0.0)), lit(vals.get("dt", 0.0)),
       lit(vals.get(amp, 0.0)), lit(vals.get(offset, 0.0)), lit(vals.get(offset, 0.0)))
    txt = open(src).read()
    if "mod kv_e2_replay" not in txt:
        open(src, "a").write(test)
    r = subprocess.run(["cargo", "test", "--offline", "--lib", "--no-default-features", "kv_e2_replay"], cwd=crate, capture_output=True, text=True, env=ENV)
    out = r.stdout + r.stderr
    if "test result: ok. 1 passed" in out:
        return "does not reproduce"
    if "test result: FAILED" in out:
        return "reproduces"
    return "replay build failed"


if __name__ == "__main__":
    sys.exit(main(sys.argv))
