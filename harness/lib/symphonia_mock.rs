// Contract stubs for Symphonia's container reader and codec (the ENVIRONMENT of kira's loading / streaming glue).
// A reader hands out a script of packets and then an error; the decoder turns packet k into the k-th prepared buffer
// (real symphonia AudioBuffer<f32> values with symbolic samples; sample-format conversion is decided separately in c18_symphonia.rs). Nothing here models a file format: what Symphonia's
// parsers make of real bytes is outside every claim built on this file.

use std::borrow::Cow;
use symphonia::core::{
	audio::{AudioBuffer as KvAudioBuffer, AudioBufferRef as KvAudioBufferRef, Channels as KvChannels, Signal as KvSignal, SignalSpec as KvSignalSpec},
	codecs::{CodecDescriptor as KvCodecDescriptor, CodecParameters as KvCodecParameters, Decoder as KvSyDecoder, DecoderOptions as KvDecoderOptions, FinalizeResult as KvFinalizeResult},
	errors::{Error as KvSyError, Result as KvSyResult},
	formats::{Cue as KvCue, FormatOptions as KvFormatOptions, FormatReader as KvFormatReader, Packet as KvPacket, SeekMode as KvSeekMode, SeekTo as KvSeekTo, SeekedTo as KvSeekedTo, Track as KvTrack},
	io::MediaSourceStream as KvMss,
	meta::Metadata as KvMetadata,
};

#[derive(Clone, Copy, PartialEq)]
pub(crate) enum KvStep {
	/// next_packet returns packet number k (its payload is the single byte k)
	Packet(u8),
	/// next_packet returns IoError(UnexpectedEof): Symphonia's end-of-stream signal
	Eof,
	/// next_packet returns an I/O error that is not end-of-stream
	IoOther,
	/// next_packet returns DecodeError (malformed container)
	Malformed,
}

pub(crate) const KV_MAX_STEPS: usize = 4;
/// a loader that is still polling after this many calls is treated as hanging
pub(crate) const KV_HANG_CALLS: usize = 8;

pub(crate) struct KvReader {
	/// never dropped: the drop glue of Track / AudioBuffer is not part of any claim and multiplies symbolic execution
	pub tracks: std::mem::ManuallyDrop<Vec<KvTrack>>,
	pub script: [KvStep; KV_MAX_STEPS],
	pub calls: usize,
	/// what an accurate seek to `ts` answers: the reader lands on this timestamp
	pub seek_lands_on: u64,
	pub seek_fails: bool,
	pub seek_requests: usize,
	pub last_seek_ts: u64,
	pub last_seek_track: u32,
}

impl KvReader {
	pub(crate) fn new(tracks: Vec<KvTrack>, script: [KvStep; KV_MAX_STEPS]) -> Self {
		Self { tracks: std::mem::ManuallyDrop::new(tracks), script, calls: 0, seek_lands_on: 0, seek_fails: false, seek_requests: 0, last_seek_ts: 0, last_seek_track: 0 }
	}
}

impl KvFormatReader for KvReader {
	fn try_new(_source: KvMss, _options: &KvFormatOptions) -> KvSyResult<Self> { unimplemented!() }
	fn cues(&self) -> &[KvCue] { &[] }
	fn metadata(&mut self) -> KvMetadata<'_> { unimplemented!() }
	fn seek(&mut self, _mode: KvSeekMode, to: KvSeekTo) -> KvSyResult<KvSeekedTo> {
		self.seek_requests += 1;
		match to {
			KvSeekTo::TimeStamp { ts, track_id } => {
				self.last_seek_ts = ts;
				self.last_seek_track = track_id;
				if self.seek_fails {
					return Err(KvSyError::SeekError(symphonia::core::errors::SeekErrorKind::OutOfRange));
				}
				Ok(KvSeekedTo { track_id, required_ts: ts, actual_ts: self.seek_lands_on })
			}
			KvSeekTo::Time { .. } => panic!("kira seeks by frame timestamp"),
		}
	}
	fn tracks(&self) -> &[KvTrack] { &self.tracks }
	fn next_packet(&mut self) -> KvSyResult<KvPacket> {
		assert!(self.calls < KV_HANG_CALLS, "the loader keeps polling the reader after the end of the stream: hang");
		let step = if self.calls < KV_MAX_STEPS { self.script[self.calls] } else { KvStep::Eof };
		self.calls += 1;
		match step {
			KvStep::Packet(k) => Ok(KvPacket::new_from_slice(0, k as u64, 1, &[k])),
			KvStep::Eof => Err(KvSyError::IoError(std::io::Error::from(std::io::ErrorKind::UnexpectedEof))),
			KvStep::IoOther => Err(KvSyError::IoError(std::io::Error::from(std::io::ErrorKind::PermissionDenied))),
			KvStep::Malformed => Err(KvSyError::DecodeError("kv: malformed")),
		}
	}
	fn into_inner(self: Box<Self>) -> KvMss { unimplemented!() }
}

pub(crate) struct KvCodec {
	pub params: KvCodecParameters,
	pub bufs: std::mem::ManuallyDrop<[KvAudioBuffer<f32>; 2]>,
	/// decoding packet number `fail_on` reports malformed data
	pub fail_on: Option<u8>,
	pub decoded: usize,
	pub last_packet_ts: u64,
}

impl KvSyDecoder for KvCodec {
	fn try_new(_params: &KvCodecParameters, _options: &KvDecoderOptions) -> KvSyResult<Self> { unimplemented!() }
	fn supported_codecs() -> &'static [KvCodecDescriptor] { &[] }
	fn reset(&mut self) {}
	fn codec_params(&self) -> &KvCodecParameters { &self.params }
	fn decode(&mut self, packet: &KvPacket) -> KvSyResult<KvAudioBufferRef<'_>> {
		// the k-th decode call answers with the k-th prepared buffer (control stays concrete: nothing is read back from
		// the packet's heap payload); which packet was handed in is recorded for the harness to check
		let k = self.decoded;
		self.decoded += 1;
		self.last_packet_ts = packet.ts;
		if self.fail_on == Some(k as u8) {
			return Err(KvSyError::DecodeError("kv: bad packet"));
		}
		Ok(KvAudioBufferRef::F32(Cow::Borrowed(&self.bufs[k])))
	}
	fn finalize(&mut self) -> KvFinalizeResult { KvFinalizeResult::default() }
	fn last_decoded(&self) -> KvAudioBufferRef<'_> { unimplemented!() }
}

/// a decoded buffer of `samples.len() / channels` frames; `samples` is interleaved
pub(crate) fn kv_f32_buffer(stereo: bool, samples: &[f32]) -> KvAudioBuffer<f32> {
	let ch = if stereo { KvChannels::FRONT_LEFT | KvChannels::FRONT_RIGHT } else { KvChannels::FRONT_LEFT };
	let nch = if stereo { 2 } else { 1 };
	let n = samples.len() / nch;
	// one spare slot of capacity: the unwritten tail of a channel must never be read
	let mut b = KvAudioBuffer::<f32>::new(n as u64 + 1, KvSignalSpec::new(44100, ch));
	b.render_reserved(Some(n));
	for i in 0..n {
		b.chan_mut(0)[i] = samples[i * nch];
		if stereo { b.chan_mut(1)[i] = samples[i * nch + 1]; }
	}
	b
}

pub(crate) fn kv_track(sample_rate: Option<u32>, n_frames: Option<u64>, id: u32) -> KvTrack {
	let mut p = KvCodecParameters::new();
	p.sample_rate = sample_rate;
	p.n_frames = n_frames;
	KvTrack::new(id, p)
}

/// an independent 32-bit IEEE-float WAV encoder (for native replays through the real Symphonia WAV reader);
/// `declared_data_len` lets a replay declare more data than the file holds (a truncated file)
pub(crate) fn kv_wav_bytes(rate: u32, stereo: bool, samples: &[f32], declared_extra_frames: u32) -> Vec<u8> {
	let nch: u16 = if stereo { 2 } else { 1 };
	let data_len = (samples.len() * 4) as u32 + declared_extra_frames * 4 * nch as u32;
	let mut v = Vec::new();
	v.extend_from_slice(b"RIFF");
	v.extend_from_slice(&(36 + data_len).to_le_bytes());
	v.extend_from_slice(b"WAVEfmt ");
	v.extend_from_slice(&16u32.to_le_bytes());
	v.extend_from_slice(&3u16.to_le_bytes());
	v.extend_from_slice(&nch.to_le_bytes());
	v.extend_from_slice(&rate.to_le_bytes());
	v.extend_from_slice(&(rate.wrapping_mul(4 * nch as u32)).to_le_bytes());
	v.extend_from_slice(&(4 * nch).to_le_bytes());
	v.extend_from_slice(&32u16.to_le_bytes());
	v.extend_from_slice(b"data");
	v.extend_from_slice(&data_len.to_le_bytes());
	for s in samples { v.extend_from_slice(&s.to_le_bytes()); }
	v
}
