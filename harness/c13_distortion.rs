// @append src/effect/distortion.rs
// C13 / C14 / C01: distortion laws on the REAL effect (struct literal, one frame per harness run).
include!(concat!(env!("KV_HARNESS_DIR"), "/lib/libm.rs"));
use crate::Value;
use atomic_arena::Arena;

fn kv_fx(kind: DistortionKind, drive: Decibels, mix: f32) -> Distortion {
	let (w, r) = command_writers_and_readers();
	std::mem::forget(w);
	Distortion { command_readers: r, kind, drive: Parameter::new(Value::Fixed(drive), Decibels::IDENTITY), mix: Parameter::new(Value::Fixed(Mix(mix)), Mix(1.0)) }
}
fn kv_run(fx: &mut Distortion, x: Frame) -> Frame {
	let c: Arena<crate::clock::Clock> = Arena::new(0);
	let m: Arena<Box<dyn crate::modulator::Modulator>> = Arena::new(0);
	let l: Arena<crate::listener::Listener> = Arena::new(0);
	let info = Info::new(&c, &m, &l, None);
	let mut buf = [x];
	fx.process(&mut buf, 1.0 / 48000.0, &info);
	std::mem::forget(c); std::mem::forget(m); std::mem::forget(l);
	buf[0]
}
fn kv_kind() -> DistortionKind { if kani::any() { DistortionKind::HardClip } else { DistortionKind::SoftClip } }
fn kv_sample(bound: f32) -> f32 { let v: f32 = kani::any(); kani::assume(v.is_finite() && v.abs() <= bound); v }

// @h prop=C13,C01,C14 tier=quick kind=main
// @bounds both kinds; every finite f32 drive level up to 120 dB (incl. -60 dB and below, where the amplitude is exactly 0, and huge gains); mix 1 (fully wet); any finite input |x| <= 8
// @funcs Distortion::process, Decibels::as_amplitude
// @assume powf contract stub (the drive amplitude is >= 0 and not NaN; drive <= 120 dB, amplitude assumed <= 1e7; beyond that x*drive overflows and the soft clipper computes inf/inf: see finding F6)
// @catches F3: (x*0)/0 = NaN at a drive of -60 dB or less; NaN or infinity from any other drive
#[kani::proof]
#[kani::unwind(3)]
#[kani::stub(f32::powf, kv_powf32)]
fn c13_distortion_finite_all_drives() {
	let d: f32 = kani::any();
	kani::assume(d.is_finite() && d <= 120.0);
	let x = Frame::new(kv_sample(8.0), kv_sample(8.0));
	let mut fx = kv_fx(kv_kind(), Decibels(d), 1.0);
	let amp = Decibels(d).as_amplitude();
	kani::assume(amp <= 1.0e7); // 120 dB is an amplitude of 1e6; the contract stub alone would allow any value >= 1
	let y = kv_run(&mut fx, x);
	assert!(y.left.is_finite() && y.right.is_finite(), "finite output for finite input over the whole drive range, edges included");
	if amp == 0.0 { assert!(y.left == x.left && y.right == x.right, "a drive of zero clips nothing: transparent"); }
	kani::cover!(d <= -60.0, "w:drive-at-or-below-silence");
	kani::cover!(d > 20.0, "w:high-drive");
	std::mem::forget(fx);
}

// @h prop=C13,C14 tier=quick kind=main
// @bounds drive 0 dB (amplitude exactly 1): hard clip is clamp(x,-1,1) for every finite f32 input; soft clip is x/(1+|x|) on the grid k/8, |k| <= 128; mix 1
// @funcs Distortion::process
// @catches clip level other than unit level; soft-clip curve changed; transparency below full scale lost
#[kani::proof]
#[kani::unwind(3)]
fn c14_distortion_curves_at_unit_drive() {
	let hard: bool = kani::any();
	// soft clip: the oracle repeats a division, which CBMC decides only on a grid (k/8, |k| <= 128: |x| <= 16)
	let g = |hard: bool| if hard { kv_sample(3.0e38) } else { let k: i8 = kani::any(); k as f32 / 8.0 };
	let x = Frame::new(g(hard), g(hard));
	let mut fx = kv_fx(if hard { DistortionKind::HardClip } else { DistortionKind::SoftClip }, Decibels::IDENTITY, 1.0);
	let y = kv_run(&mut fx, x);
	if hard {
		assert!(y.left == x.left.clamp(-1.0, 1.0) && y.right == x.right.clamp(-1.0, 1.0), "hard clip at unit level after drive");
		if x.left.abs() <= 1.0 { assert!(y.left == x.left, "transparent below full scale at 0 dB drive"); }
	} else {
		assert!(y.left == x.left / (1.0 + x.left.abs()) && y.right == x.right / (1.0 + x.right.abs()), "soft clip is x / (1 + |x|)");
	}
	kani::cover!(hard && x.left > 1.0, "w:clipped");
	kani::cover!(!hard && x.left < 0.0, "w:soft-negative");
	std::mem::forget(fx);
}

// @h prop=C13 tier=quick kind=main
// @bounds mix 0 (fully dry), both kinds, drive 0 dB or +12 dB or -60 dB, any finite input |x| <= 1e30: output == input bit-exactly; silence in -> silence out
// @funcs Distortion::process
// @assume powf contract stub
// @catches dry path scaled or replaced by the wet signal; mix clamp dropped
#[kani::proof]
#[kani::unwind(3)]
#[kani::stub(f32::powf, kv_powf32)]
fn c13_distortion_dry_is_identity() {
	let x = Frame::new(kv_sample(1.0e30), kv_sample(1.0e30));
	let dsel: u8 = kani::any();
	let drive = match dsel % 3 { 0 => Decibels::IDENTITY, 1 => Decibels(12.0), _ => Decibels::SILENCE };
	let below: bool = kani::any();
	let mut fx = kv_fx(kv_kind(), drive, if below { -0.5 } else { 0.0 });
	kani::assume(Decibels(12.0).as_amplitude() <= 16.0);
	let y = kv_run(&mut fx, x);
	assert!(y.left == x.left && y.right == x.right, "fully dry leaves the signal unchanged (mix below 0 is clamped to dry)");
	kani::cover!(below, "w:mix-below-range");
	std::mem::forget(fx);
}
