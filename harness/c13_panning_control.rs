// @append src/effect/panning_control.rs
// C13 / C14: panning control.
use crate::Value;
use atomic_arena::Arena;

// @h prop=C13,C14 tier=quick kind=main
// @bounds PanningControl at centre, hard left, hard right; 2-frame chunk of finite frames
// @funcs PanningControl::process, Frame::panned
// @catches centre not transparent; hard pan leaking into the other channel; only the first frame processed
#[kani::proof]
#[kani::unwind(4)]
fn c13_panning_control_laws() {
	let sel: u8 = kani::any();
	kani::assume(sel < 3);
	let p = match sel { 0 => Panning::CENTER, 1 => Panning::LEFT, _ => Panning::RIGHT };
	let (w, r) = command_writers_and_readers();
	std::mem::forget(w);
	let mut fx = PanningControl { command_readers: r, panning: Parameter::new(Value::Fixed(p), Panning::CENTER) };
	let v: [f32; 4] = kani::any();
	kani::assume(v[0].is_finite() && v[1].is_finite() && v[2].is_finite() && v[3].is_finite());
	let c: Arena<crate::clock::Clock> = Arena::new(0);
	let m: Arena<Box<dyn crate::modulator::Modulator>> = Arena::new(0);
	let l: Arena<crate::listener::Listener> = Arena::new(0);
	let info = Info::new(&c, &m, &l, None);
	let mut buf = [Frame::new(v[0], v[1]), Frame::new(v[2], v[3])];
	fx.process(&mut buf, 1.0 / 48000.0, &info);
	match sel {
		0 => assert!(buf[0] == Frame::new(v[0], v[1]) && buf[1] == Frame::new(v[2], v[3]), "centre panning leaves the signal unchanged"),
		1 => assert!(buf[0].right == 0.0 && buf[1].right == 0.0 && buf[0].left.is_sign_negative() == v[0].is_sign_negative() && buf[0].left.abs() >= v[0].abs(), "hard left: nothing on the right, left keeps its sign"),
		_ => assert!(buf[0].left == 0.0 && buf[1].left == 0.0 && buf[1].right.is_sign_negative() == v[3].is_sign_negative(), "hard right: nothing on the left"),
	}
	kani::cover!(sel == 2 && v[3] != 0.0, "w:hard-right");
	std::mem::forget(fx); std::mem::forget(c); std::mem::forget(m); std::mem::forget(l);
}
