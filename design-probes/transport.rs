

#[kani::proof]
#[kani::unwind(10)]
fn transport_increment_in_bounds() {
	let num_frames: usize = kani::any();
	kani::assume(num_frames <= 8);
	let position: usize = kani::any();
	kani::assume(position < num_frames);
	let has_loop: bool = kani::any();
	let ls: usize = kani::any();
	let le: usize = kani::any();
	kani::assume(ls < le && le <= num_frames);
	let mut t = Transport { position, loop_region: if has_loop { Some((ls, le)) } else { None }, playing: true };
	t.increment_position(num_frames);
	assert!(!t.playing || t.position < num_frames);
}
