#!/usr/bin/env python3
"""Run the quick (or thorough) check of each seeded change's own property against the change applied to a scratch copy
of /repo (kv/seedcheck.sh) and record which harnesses detect it.  usage: seedmatrix.py [--tier quick|thorough] [seed ...]
Writes seeded/<seed>/meta.json (detected_by) and seeded/RESULTS.md."""
import json, os, re, subprocess, sys, time
V = os.path.dirname(os.path.dirname(os.path.abspath(__file__)))
tier = "quick"
args = sys.argv[1:]
if "--tier" in args:
    tier = args[args.index("--tier") + 1]; del args[args.index("--tier"):args.index("--tier") + 2]
seeds = args or sorted(d for d in os.listdir(V + "/seeded") if os.path.isfile(V + "/seeded/" + d + "/meta.json"))
for s in seeds:
    d = V + "/seeded/" + s
    meta = json.load(open(d + "/meta.json"))
    prop = meta["breaks_property"]
    t0 = time.time()
    env = dict(os.environ, TIER=tier)
    out = subprocess.run([V + "/kv/seedcheck.sh", d + "/patch.diff", prop], capture_output=True, text=True, env=env).stdout
    hs = sorted(set(re.findall(r"^  harness (\S+):", out, re.M)))
    rc = re.search(r"exit=(\d+)", out)
    rc = int(rc.group(1)) if rc else -1
    inconc = sorted(set(re.findall(r"INCONCLUSIVE property=\S+ (\S+):", out)))
    res = {"tier": tier, "exit": rc, "violation_harnesses": hs, "inconclusive_harnesses": inconc, "wall_s": round(time.time() - t0)}
    meta.setdefault("check_results", {})[tier] = res
    meta["detected_by"] = hs if rc == 1 else (meta.get("detected_by") or None)
    json.dump(meta, open(d + "/meta.json", "w"), indent=1)
    print(s, prop, "exit", rc, "DETECTED by " + ",".join(hs) if rc == 1 else ("inconclusive " + ",".join(inconc) if rc == 2 else "MISSED"), flush=True)
# table
rows = []
for s in sorted(d for d in os.listdir(V + "/seeded") if os.path.isfile(V + "/seeded/" + d + "/meta.json")):
    meta = json.load(open(V + "/seeded/" + s + "/meta.json"))
    cr = meta.get("check_results", {})
    def cell(t):
        r = cr.get(t)
        if not r: return "not run"
        if r["exit"] == 1: return "VIOLATION: " + ", ".join(r["violation_harnesses"])
        if r["exit"] == 2: return "inconclusive: " + ", ".join(r["inconclusive_harnesses"])
        if r["exit"] == 0: return "missed"
        return "error"
    rows.append("| %s | %s | %s | %s | %s |" % (s, meta["breaks_property"], meta.get("summary", "")[:110].replace("|", "/"), cell("quick"), cell("thorough")))
open(V + "/seeded/RESULTS.md", "w").write("# Seeded changes vs. the checks\n\nWritten by kv/seedmatrix.py (each check is run against the change applied to a scratch copy of /repo).\n\n| seed | property | change | quick check | thorough check |\n|---|---|---|---|---|\n" + "\n".join(rows) + "\n")
