// @append src/tween.rs
// C19: easing end points and monotonicity (libm contract stubs for powi/powf).
include!(concat!(env!("KV_HARNESS_DIR"), "/lib/libm.rs"));

fn kv_easing(sel: u8, pi: i32, pf: f64) -> Easing {
	match sel {
		0 => Easing::Linear,
		1 => Easing::InPowi(pi),
		2 => Easing::OutPowi(pi),
		3 => Easing::InOutPowi(pi),
		4 => Easing::InPowf(pf),
		5 => Easing::OutPowf(pf),
		_ => Easing::InOutPowf(pf),
	}
}

// @h prop=C19,C06 tier=quick kind=main
// @bounds all seven easing variants, integer powers >= 1 (all i32), real powers > 0 (all finite f64)
// @funcs Easing::apply
// @assume powi/powf contract stubs: pow(0,p>0)=0, pow(1,p)=1
// @catches InOut halves joined at the wrong value; Out variant not mirrored; end point not exact
#[kani::proof]
#[kani::unwind(2)]
#[kani::stub(f64::powf, kv_powf64)]
#[kani::stub(f64::powi, kv_powi64)]
fn c19_easing_endpoints() {
	let sel: u8 = kani::any();
	let pi: i32 = kani::any();
	let pf: f64 = kani::any();
	kani::assume(sel < 7 && pi >= 1 && pf > 0.0 && pf.is_finite());
	let e = kv_easing(sel, pi, pf);
	assert!(e.apply(0.0) == 0.0, "easing maps 0 to 0");
	assert!(e.apply(1.0) == 1.0, "easing maps 1 to 1");
	kani::cover!(sel == 3, "w:inoutpowi");
	kani::cover!(sel == 6, "w:inoutpowf");
}

fn kv_easing_monotone_body(sel: u8) {
	let pi: i32 = kani::any();
	let pf: f64 = kani::any();
	let x1: f64 = kani::any();
	let x2: f64 = kani::any();
	kani::assume(pi >= 1 && pf > 0.0 && pf.is_finite());
	kani::assume(x1 >= 0.0 && x1 <= x2 && x2 <= 1.0);
	let e = kv_easing(sel, pi, pf);
	let y1 = e.apply(x1);
	let y2 = e.apply(x2);
	assert!(y1 >= 0.0 && y1 <= 1.0 && y2 >= 0.0 && y2 <= 1.0, "eased amount stays in [0,1]");
	assert!(y1 <= y2, "easing is monotone on [0,1]");
	kani::cover!(x1 < 0.5 && x2 > 0.5, "w:across-middle");
	kani::cover!(x1 == x2, "w:equal-inputs");
}

// @h prop=C19,C06 tier=quick kind=main
// @bounds easing variant linear, power any i32 >= 1 / any finite f64 > 0, every pair 0 <= x1 <= x2 <= 1 (all f64 bit patterns)
// @funcs Easing::apply
// @assume powi/powf contract stubs incl. monotonicity in the base and result in [0,1] for a base in [0,1]
// @catches non-monotone seam at the middle of the InOut variants; mirrored half with the wrong sign; range leaving [0,1]
#[kani::proof]
#[kani::unwind(2)]
#[kani::stub(f64::powf, kv_powf64)]
#[kani::stub(f64::powi, kv_powi64)]
fn c19_easing_monotone_linear() { kv_easing_monotone_body(0); }

// @h prop=C19,C06 tier=quick kind=main
// @bounds easing variant inpowi, power any i32 >= 1 / any finite f64 > 0, every pair 0 <= x1 <= x2 <= 1 (all f64 bit patterns)
// @funcs Easing::apply
// @assume powi/powf contract stubs incl. monotonicity in the base and result in [0,1] for a base in [0,1]
// @catches non-monotone seam at the middle of the InOut variants; mirrored half with the wrong sign; range leaving [0,1]
#[kani::proof]
#[kani::unwind(2)]
#[kani::stub(f64::powf, kv_powf64)]
#[kani::stub(f64::powi, kv_powi64)]
fn c19_easing_monotone_inpowi() { kv_easing_monotone_body(1); }

// @h prop=C19,C06 tier=quick kind=main
// @bounds easing variant outpowi, power any i32 >= 1 / any finite f64 > 0, every pair 0 <= x1 <= x2 <= 1 (all f64 bit patterns)
// @funcs Easing::apply
// @assume powi/powf contract stubs incl. monotonicity in the base and result in [0,1] for a base in [0,1]
// @catches non-monotone seam at the middle of the InOut variants; mirrored half with the wrong sign; range leaving [0,1]
#[kani::proof]
#[kani::unwind(2)]
#[kani::stub(f64::powf, kv_powf64)]
#[kani::stub(f64::powi, kv_powi64)]
fn c19_easing_monotone_outpowi() { kv_easing_monotone_body(2); }

// @h prop=C19,C06 tier=quick kind=main
// @bounds easing variant inoutpowi, power any i32 >= 1 / any finite f64 > 0, every pair 0 <= x1 <= x2 <= 1 (all f64 bit patterns)
// @funcs Easing::apply
// @assume powi/powf contract stubs incl. monotonicity in the base and result in [0,1] for a base in [0,1]
// @catches non-monotone seam at the middle of the InOut variants; mirrored half with the wrong sign; range leaving [0,1]
#[kani::proof]
#[kani::unwind(2)]
#[kani::stub(f64::powf, kv_powf64)]
#[kani::stub(f64::powi, kv_powi64)]
fn c19_easing_monotone_inoutpowi() { kv_easing_monotone_body(3); }

// @h prop=C19,C06 tier=quick kind=main
// @bounds easing variant inpowf, power any i32 >= 1 / any finite f64 > 0, every pair 0 <= x1 <= x2 <= 1 (all f64 bit patterns)
// @funcs Easing::apply
// @assume powi/powf contract stubs incl. monotonicity in the base and result in [0,1] for a base in [0,1]
// @catches non-monotone seam at the middle of the InOut variants; mirrored half with the wrong sign; range leaving [0,1]
#[kani::proof]
#[kani::unwind(2)]
#[kani::stub(f64::powf, kv_powf64)]
#[kani::stub(f64::powi, kv_powi64)]
fn c19_easing_monotone_inpowf() { kv_easing_monotone_body(4); }

// @h prop=C19,C06 tier=quick kind=main
// @bounds easing variant outpowf, power any i32 >= 1 / any finite f64 > 0, every pair 0 <= x1 <= x2 <= 1 (all f64 bit patterns)
// @funcs Easing::apply
// @assume powi/powf contract stubs incl. monotonicity in the base and result in [0,1] for a base in [0,1]
// @catches non-monotone seam at the middle of the InOut variants; mirrored half with the wrong sign; range leaving [0,1]
#[kani::proof]
#[kani::unwind(2)]
#[kani::stub(f64::powf, kv_powf64)]
#[kani::stub(f64::powi, kv_powi64)]
fn c19_easing_monotone_outpowf() { kv_easing_monotone_body(5); }

// @h prop=C19,C06 tier=quick kind=main
// @bounds easing variant inoutpowf, power any i32 >= 1 / any finite f64 > 0, every pair 0 <= x1 <= x2 <= 1 (all f64 bit patterns)
// @funcs Easing::apply
// @assume powi/powf contract stubs incl. monotonicity in the base and result in [0,1] for a base in [0,1]
// @catches non-monotone seam at the middle of the InOut variants; mirrored half with the wrong sign; range leaving [0,1]
#[kani::proof]
#[kani::unwind(2)]
#[kani::stub(f64::powf, kv_powf64)]
#[kani::stub(f64::powi, kv_powi64)]
fn c19_easing_monotone_inoutpowf() { kv_easing_monotone_body(6); }
