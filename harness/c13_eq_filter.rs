// @append src/effect/eq_filter.rs
// C13 / C14: EQ filter coefficients.
include!(concat!(env!("KV_HARNESS_DIR"), "/lib/libm.rs"));

fn kv_kind() -> EqFilterKind { let m: u8 = kani::any(); match m % 3 { 0 => EqFilterKind::Bell, 1 => EqFilterKind::LowShelf, _ => EqFilterKind::HighShelf } }

// @h prop=C13,C14 tier=quick kind=main timeout=600
// @bounds all three kinds; gain exactly 0 dB; any finite frequency, any finite q (clamped at MIN_Q), dt = 1/48000: the mixing coefficients are exactly (1, 0, 0)
// @funcs Coefficients::calculate
// @assume powf contract stub (pow(10,0) = 1), tan contract stub (finite, positive on the clamped range), sqrt exact
// @catches 0 dB gain not transparent (m0 != 1 or m1/m2 != 0) for some kind
#[kani::proof]
#[kani::unwind(2)]
#[kani::stub(f64::powf, kv_powf64)]
#[kani::stub(f64::tan, kv_tan64)]
fn c13_eq_zero_gain_is_identity() {
	let f: f64 = kani::any();
	let q: f64 = kani::any();
	kani::assume(f.is_finite() && q.is_finite());
	let c = Coefficients::calculate(kv_kind(), f, q, Decibels::IDENTITY, 1.0 / 48000.0);
	assert!(c.m0 == 1.0 && c.m1 == 0.0 && c.m2 == 0.0, "0 dB EQ gain: output = input");
	assert!(c.a1.is_finite() && c.a2.is_finite() && c.a3.is_finite() && c.a1 > 0.0 && c.a1 <= 1.0);
	kani::cover!(q < 0.0, "w:q-clamped");
	std::mem::forget(c);
}

// @h prop=C13,C01 tier=quick kind=main timeout=600
// @bounds all three kinds; every finite gain in [-80, +40] dB incl. -60 dB and below; frequency 500 Hz, q 1, 48 kHz: all six coefficients are finite
// @funcs Coefficients::calculate
// @assume powf contract stub with 10^e >= 0.0099 for e >= -2 and <= 10.001 for e <= 1; tan contract stub
// @catches a gain law that collapses to A = 0 at low gains (e.g. going through Decibels::as_amplitude, which is exactly 0 at -60 dB): 1/(q A) = inf, inf*0 = NaN
#[kani::proof]
#[kani::unwind(2)]
#[kani::stub(f64::powf, kv_powf64)]
#[kani::stub(f32::powf, kv_powf32)]
#[kani::stub(f64::tan, kv_tan64)]
fn c13_eq_coefficients_finite_over_gain_range() {
	let g: f32 = kani::any();
	kani::assume(g >= -80.0 && g <= 40.0);
	let c = Coefficients::calculate(kv_kind(), 500.0, 1.0, Decibels(g), 1.0 / 48000.0);
	assert!(c.a1.is_finite() && c.a2.is_finite() && c.a3.is_finite() && c.m0.is_finite() && c.m1.is_finite() && c.m2.is_finite(), "finite coefficients over the documented gain range and its edges");
	kani::cover!(g <= -60.0, "w:at-or-below-silence");
	kani::cover!(g > 12.0, "w:boost");
}
