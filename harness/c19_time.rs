// @append src/clock/time.rs
// C19: clock-time arithmetic. (Float `%` is mis-modelled by Kani 0.68 - always 0.0 - so these
// harnesses are only meaningful on a tree whose ClockTime code does not use it; the driver's
// frem lint refuses to run them otherwise.)

fn kv_clock_ids() -> (ClockId, ClockId) {
	let arena: atomic_arena::Arena<u8> = atomic_arena::Arena::new(2);
	let c = arena.controller();
	let a = ClockId(c.try_reserve().unwrap());
	let b = ClockId(c.try_reserve().unwrap());
	std::mem::forget(arena);
	(a, b)
}

fn kv_time(clock: ClockId) -> ClockTime {
	let ticks: u64 = kani::any();
	let fraction: f64 = kani::any();
	kani::assume(ticks <= (1u64 << 53));
	kani::assume(fraction >= 0.0 && fraction < 1.0);
	ClockTime { clock, ticks, fraction }
}

fn kv_add_f64_body(xmax: f64) {
	let (id, _) = kv_clock_ids();
	let t = kv_time(id);
	let x: f64 = kani::any();
	kani::assume(x >= 0.0 && x <= xmax);
	let r = t + x;
	assert!(r.fraction >= 0.0 && r.fraction < 1.0, "fraction stays in [0,1)");
	// semantic form (not tied to one rounding order): the whole ticks added are trunc(x) or one more (the carry),
	// and within a tick the fraction moves the right way
	let whole = x.trunc() as u64;
	assert!(r.ticks == t.ticks + whole || r.ticks == t.ticks + whole + 1, "adds the whole ticks of x, plus at most one carry");
	if x < 1.0 && r.ticks == t.ticks { assert!(r.fraction >= t.fraction, "no carry: the fraction does not go down"); }
	if x < 1.0 && r.ticks == t.ticks + 1 { assert!(r.fraction <= t.fraction, "carry: the fraction wrapped"); }
	if x == 0.0 { assert!(r.ticks == t.ticks && r.fraction == t.fraction); }
	assert!(r.ticks >= t.ticks);
	assert!(r.clock == t.clock);
	kani::cover!(x > 0.0 && x < 1.0 && r.ticks == t.ticks + 1, "w:carry");
	kani::cover!(x > 0.0 && r.ticks == t.ticks, "w:no-carry");
}

// @h prop=C19 tier=quick kind=main
// @bounds ticks <= 2^53, fraction in [0,1), 0 <= x <= 65536 (all f64 bit patterns in range)
// @funcs <ClockTime as Add<f64>>::add
// @catches carry computed from a different rounding than the fraction; fraction leaving [0,1)
#[kani::proof]
#[kani::unwind(3)]
fn c19_clocktime_add_f64() { kv_add_f64_body(65536.0); }

// @h prop=C19 tier=thorough kind=main timeout=1700
// @bounds as above with 0 <= x <= 2^53
// @funcs <ClockTime as Add<f64>>::add
#[kani::proof]
#[kani::unwind(3)]
fn c19_clocktime_add_f64_wide() { kv_add_f64_body(9007199254740992.0); }

// @h prop=C19 tier=quick kind=main
// @bounds ticks <= 2^53, fraction in [0,1), 0 <= x <= 2^53
// @funcs <ClockTime as Sub<f64>>::sub
// @catches fraction leaving [0,1); subtraction wrapping below zero; result later than the original
#[kani::proof]
#[kani::unwind(3)]
fn c19_clocktime_sub_f64_range() {
	let (id, _) = kv_clock_ids();
	let t = kv_time(id);
	let x: f64 = kani::any();
	kani::assume(x >= 0.0 && x <= 9007199254740992.0);
	let r = t - x;
	assert!(r.fraction >= 0.0 && r.fraction < 1.0, "fraction stays in [0,1)");
	assert!(r.ticks <= t.ticks, "never wraps below zero / never later than the original ticks");
	if x == 0.0 { assert!(r.ticks == t.ticks && r.fraction == t.fraction); }
	if x <= t.fraction { assert!(r.ticks == t.ticks && r.fraction == t.fraction - x, "no borrow when the fraction suffices"); }
	kani::cover!(x > t.fraction && x < 1.0 && t.ticks > 0, "w:borrow-one");
	kani::cover!(x > 2.0 && t.ticks == 1, "w:saturate");
}

// @h prop=C19 tier=experimental kind=main timeout=1750
// @note no answer in 1750 s (two chained f64 additions compared with an independently rounded reference): NOT decided, never run; the quick tier decides c19_clocktime_sub_small_no_tick_error instead
// @bounds ticks in [2^11, 2^20], fraction in [0,1), 0 <= x <= 2 (all f64 bit patterns in range, incl. denormals); "to rounding" = the result, read as ticks+fraction, is within 2^-40 ticks of the exact value
// @funcs <ClockTime as Sub<f64>>::sub
// @catches F14: borrow and fraction derived from differently rounded expressions (off by one whole tick)
#[kani::proof]
#[kani::unwind(3)]
fn c19_clocktime_sub_f64_consistent() { kv_sub_consistent_body(2.0, 1u64 << 20); }
fn kv_sub_consistent_body(xmax: f64, tmax: u64) {
	let (id, _) = kv_clock_ids();
	let t = kv_time(id);
	let x: f64 = kani::any();
	kani::assume(t.ticks >= 2048 && t.ticks <= tmax);
	kani::assume(x >= 0.0 && x <= xmax);
	let r = t - x;
	// exact reference: split x into whole and fractional parts (both exact in f64)
	let xw = x.trunc();
	let xf = x - xw; // exact
	// exact value = (t.ticks - xw) + (t.fraction - xf), with t.fraction - xf in (-1, 1) computed to 1/2 ulp
	let d = t.fraction - xf;
	let (want_ticks, want_frac) = if d >= 0.0 { (t.ticks - xw as u64, d) } else { (t.ticks - xw as u64 - 1, d + 1.0) };
	let eps = 9.094947017729282e-13; // 2^-40
	// compare as (ticks, fraction) allowing the representation to sit on either side of a tick boundary
	let ok_same = r.ticks == want_ticks && (r.fraction - want_frac).abs() <= eps;
	let ok_up = r.ticks == want_ticks + 1 && r.fraction <= eps && want_frac >= 1.0 - eps;
	let ok_down = r.ticks + 1 == want_ticks && want_frac <= eps && r.fraction >= 1.0 - eps;
	assert!(ok_same || ok_up || ok_down, "t - x equals the exact difference to rounding");
	kani::cover!(d < 0.0, "w:borrow");
	kani::cover!(ok_up, "w:rounds-up-to-next-tick");
}

// @h prop=C19 tier=experimental kind=main timeout=1750
// @note no answer in 1750 s (two chained f64 additions compared with an independently rounded reference): NOT decided, never run; the quick tier decides c19_clocktime_sub_small_no_tick_error instead
// @bounds ticks <= 2^20, fraction in [0,1), 0 <= x <= 2 (all f64 bit patterns in range); round trip (t + x) - x
// @funcs <ClockTime as Add<f64>>::add, <ClockTime as Sub<f64>>::sub
// @catches F14: (648, 1-2^-53) + 5.1e-15 - 5.1e-15 = (648, 0.0)
#[kani::proof]
#[kani::unwind(3)]
fn c19_clocktime_add_sub_roundtrip() { kv_roundtrip_body(2.0, 1u64 << 20); }
fn kv_roundtrip_body(xmax: f64, tmax: u64) {
	let (id, _) = kv_clock_ids();
	let t = kv_time(id);
	let x: f64 = kani::any();
	kani::assume(t.ticks <= tmax);
	kani::assume(x >= 0.0 && x <= xmax);
	let r = (t + x) - x;
	let eps = 9.094947017729282e-13; // 2^-40
	let ok_same = r.ticks == t.ticks && (r.fraction - t.fraction).abs() <= eps;
	let ok_up = r.ticks == t.ticks + 1 && r.fraction <= eps && t.fraction >= 1.0 - eps;
	let ok_down = r.ticks + 1 == t.ticks && t.fraction <= eps && r.fraction >= 1.0 - eps;
	assert!(ok_same || ok_up || ok_down, "(t + x) - x returns t to rounding");
	kani::cover!(x > 0.5 && r.ticks == t.ticks && r.fraction == t.fraction, "w:exact-roundtrip");
}

// @h prop=C19 tier=quick kind=main
// @bounds all u64 tick counts and amounts; fraction in [0,1)
// @funcs <ClockTime as Sub<u64>>::sub, <ClockTime as SubAssign<u64>>::sub_assign, <ClockTime as Add<u64>>::add
// @catches F15: underflow of ticks - n
#[kani::proof]
#[kani::unwind(3)]
fn c19_clocktime_sub_u64_saturates() {
	let (id, _) = kv_clock_ids();
	let ticks: u64 = kani::any();
	let fraction: f64 = kani::any();
	kani::assume(fraction >= 0.0 && fraction < 1.0);
	let t = ClockTime { clock: id, ticks, fraction };
	let n: u64 = kani::any();
	let r = t - n;
	assert!(r.ticks == if n > ticks { 0 } else { ticks - n });
	assert!(r.fraction == fraction && r.clock == id);
	let mut m = t;
	m -= n;
	assert!(m.ticks == r.ticks && m.fraction == r.fraction);
	if ticks <= u64::MAX - n {
		let a = t + n;
		assert!(a.ticks == ticks + n && a.fraction == fraction);
		assert!((a - n).ticks == ticks);
	}
	kani::cover!(n > ticks, "w:saturates");
	kani::cover!(n < ticks && n > 0, "w:plain");
}

// @h prop=C19 tier=quick kind=main
// @bounds all u64 ticks, all non-NaN fractions in [0,1); same clock and two different clocks
// @funcs <ClockTime as PartialOrd>::partial_cmp
// @catches comparing fractions before ticks; Some(..) across clocks
#[kani::proof]
#[kani::unwind(3)]
fn c19_clocktime_ordering() {
	let (id, other) = kv_clock_ids();
	let a = ClockTime { clock: id, ticks: kani::any(), fraction: kani::any() };
	let b = ClockTime { clock: id, ticks: kani::any(), fraction: kani::any() };
	kani::assume(a.fraction >= 0.0 && a.fraction < 1.0 && b.fraction >= 0.0 && b.fraction < 1.0);
	let want = if a.ticks < b.ticks { Ordering::Less } else if a.ticks > b.ticks { Ordering::Greater }
		else if a.fraction < b.fraction { Ordering::Less } else if a.fraction > b.fraction { Ordering::Greater } else { Ordering::Equal };
	assert!(a.partial_cmp(&b) == Some(want), "ordering agrees with (ticks, fraction)");
	assert!((a >= b) == (want != Ordering::Less));
	let c = ClockTime { clock: other, ..b };
	assert!(a.partial_cmp(&c).is_none(), "times of different clocks are incomparable");
	assert!(!(a >= c) && !(a < c));
	kani::cover!(a.ticks == b.ticks && a.fraction < b.fraction, "w:same-tick");
	kani::cover!(a.ticks > b.ticks && a.fraction < b.fraction, "w:ticks-dominate");
}

// @h prop=C19 tier=quick kind=main
// @bounds 0 <= x <= 2^53
// @funcs ClockTime::from_ticks_f64, ClockTime::from_ticks_u64
#[kani::proof]
#[kani::unwind(3)]
fn c19_clocktime_from_ticks() {
	let (id, _) = kv_clock_ids();
	let x: f64 = kani::any();
	kani::assume(x >= 0.0 && x <= 9007199254740992.0);
	let t = ClockTime::from_ticks_f64(id, x);
	assert!(t.fraction >= 0.0 && t.fraction < 1.0);
	assert!(t.ticks as f64 + t.fraction == x, "ticks + fraction reproduces the value exactly");
	let n: u64 = kani::any();
	let u = ClockTime::from_ticks_u64(id, n);
	assert!(u.ticks == n && u.fraction == 0.0);
	kani::cover!(t.fraction > 0.0 && t.ticks > 3, "w:fractional");
}

// @h prop=C19 tier=experimental kind=main timeout=1750
// @note no answer in 1750 s (two chained f64 additions compared with an independently rounded reference): NOT decided, never run; the quick tier decides c19_clocktime_sub_small_no_tick_error instead
// @bounds ticks in [2^11, 2^40], fraction in [0,1), 0 <= x <= 1024
// @funcs <ClockTime as Sub<f64>>::sub
#[kani::proof]
#[kani::unwind(3)]
fn c19_clocktime_sub_f64_consistent_wide() { kv_sub_consistent_body(1024.0, 1u64 << 40); }

// @h prop=C19 tier=experimental kind=main timeout=1750
// @note no answer in 1750 s (two chained f64 additions compared with an independently rounded reference): NOT decided, never run; the quick tier decides c19_clocktime_sub_small_no_tick_error instead
// @bounds ticks <= 2^40, fraction in [0,1), 0 <= x <= 1024
// @funcs <ClockTime as Add<f64>>::add, <ClockTime as Sub<f64>>::sub
#[kani::proof]
#[kani::unwind(3)]
fn c19_clocktime_add_sub_roundtrip_wide() { kv_roundtrip_body(1024.0, 1u64 << 40); }

// @h prop=C19 tier=quick kind=main
// @bounds ticks in [1, 2^53], fraction in [0,1), 0 <= x <= 1/2 (all f64 bit patterns incl. denormals): the result is never a whole tick away from where it should be
// @funcs <ClockTime as Sub<f64>>::sub
// @catches F14: borrow and fraction derived from differently rounded expressions, e.g. (5,0.0) - 1e-20 = (4,0.0)
#[kani::proof]
#[kani::unwind(3)]
fn c19_clocktime_sub_small_no_tick_error() {
	let (id, _) = kv_clock_ids();
	let t = kv_time(id);
	let x: f64 = kani::any();
	kani::assume(t.ticks >= 1);
	kani::assume(x >= 0.0 && x <= 0.5);
	let r = t - x;
	// subtracting at most half a tick: either no borrow (fraction went down) or one borrow and the
	// fraction landed in the upper half
	let no_borrow = r.ticks == t.ticks && r.fraction <= t.fraction;
	let one_borrow = r.ticks + 1 == t.ticks && r.fraction >= 0.5 && r.fraction >= t.fraction;
	assert!(no_borrow || one_borrow, "t - x (x <= 1/2) is within half a tick below t");
	if x <= t.fraction { assert!(no_borrow); }
	kani::cover!(one_borrow, "w:borrow");
	kani::cover!(no_borrow && x > 0.0, "w:no-borrow");
}

// @h prop=C19 tier=thorough kind=main timeout=3000
// @bounds ticks <= 2^53, fraction in [0,1), 0 <= x <= 1/2: (t + x) - x is t, or the same instant written on the other side of a tick boundary (fraction within 2^-40 of it)
// @funcs <ClockTime as Add<f64>>::add, <ClockTime as Sub<f64>>::sub
// @catches F14: (648, 1-2^-53) + 5.1e-15 - 5.1e-15 = (648, 0.0), a whole tick early
#[kani::proof]
#[kani::unwind(3)]
fn c19_clocktime_roundtrip_small_no_tick_error() {
	let (id, _) = kv_clock_ids();
	let t = kv_time(id);
	let x: f64 = kani::any();
	kani::assume(x >= 0.0 && x <= 0.5);
	let r = (t + x) - x;
	let eps = 9.094947017729282e-13; // 2^-40
	let same = r.ticks == t.ticks && r.fraction <= t.fraction + eps && t.fraction <= r.fraction + eps;
	let up = r.ticks == t.ticks + 1 && r.fraction <= eps && t.fraction >= 1.0 - eps;
	let down = r.ticks + 1 == t.ticks && t.fraction <= eps && r.fraction >= 1.0 - eps;
	assert!(same || up || down, "(t + x) - x returns t to rounding");
	kani::cover!(same && x > 0.25, "w:same");
	kani::cover!(up, "w:other-side-of-boundary");
}
