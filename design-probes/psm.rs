use crate::info::Info;
use crate::clock::Clock;
use crate::listener::Listener;
use crate::modulator::Modulator;
use atomic_arena::Arena;
use std::time::Duration;

fn any_fade() -> Parameter<Decibels> {
	let mut p = Parameter::new(Value::Fixed(Decibels(kani::any())), Decibels::IDENTITY);
	if kani::any() {
		let tgt = if kani::any() { Decibels::SILENCE } else { Decibels::IDENTITY };
		p.set(Value::Fixed(tgt), Tween { start_time: StartTime::Immediate, duration: Duration::from_millis(250), easing: crate::Easing::Linear });
	}
	p
}

#[kani::proof]
#[kani::unwind(3)]
fn psm_update_one_step() {
	let clocks: Arena<Clock> = Arena::new(0);
	let modulators: Arena<Box<dyn Modulator>> = Arena::new(0);
	let listeners: Arena<Listener> = Arena::new(0);
	let info = Info::new(&clocks, &modulators, &listeners, None);
	let sel: u8 = kani::any();
	kani::assume(sel < 7);
	let state = match sel {
		0 => State::Playing, 1 => State::Pausing, 2 => State::Paused,
		3 => State::WaitingToResume { start_time: StartTime::Immediate, fade_in_tween: Tween { start_time: StartTime::Immediate, duration: Duration::from_millis(250), easing: crate::Easing::Linear } },
		4 => State::Resuming, 5 => State::Stopping, _ => State::Stopped,
	};
	let mut psm = PlaybackStateManager { state, volume_fade: any_fade() };
	kani::assume(psm.volume_fade.value().0.is_finite() && psm.volume_fade.value().0.abs() <= 100.0);
	let before = psm.playback_state();
	let dt: f64 = kani::any();
	kani::assume(dt > 0.0 && dt <= 1.0);
	let changed = psm.update(dt, &info);
	let after = psm.playback_state();
	if before == PlaybackState::Stopped { assert!(after == PlaybackState::Stopped && !changed); }
	if before == PlaybackState::Playing { assert!(after == PlaybackState::Playing); }
	if before == PlaybackState::Paused { assert!(after == PlaybackState::Paused); }
	if before == PlaybackState::Pausing { assert!(after == PlaybackState::Pausing || after == PlaybackState::Paused); }
	if before == PlaybackState::Stopping { assert!(after == PlaybackState::Stopping || after == PlaybackState::Stopped); }
	if before == PlaybackState::Resuming { assert!(after == PlaybackState::Resuming || after == PlaybackState::Playing); }
	if before == PlaybackState::WaitingToResume { assert!(after == PlaybackState::Resuming); }
	assert!(changed == (before != after));
	kani::cover!(before == PlaybackState::Pausing && after == PlaybackState::Paused);
	std::mem::forget(clocks); std::mem::forget(modulators); std::mem::forget(listeners);
}
