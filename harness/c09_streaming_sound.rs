// @append src/sound/streaming/sound.rs
// @requires kv_psm_force.rs
// C09 / C10 / C03: ONE callback of the real StreamingSound (struct literal over an 8-slot ring) from ANY
// ring content, mirroring c04_static_one_callback_from_any_state: both sounds output the frame in slot 1 of
// a [previous, current, next, next+1] window and advance by playback_rate x source_rate x dt frames.
use crate::sound::streaming::command_writers_and_readers;
use crate::clock::Clock;
use crate::listener::Listener;
use crate::modulator::Modulator;
use crate::Value;
use atomic_arena::Arena;
use rtrb::RingBuffer;
use std::time::Duration;

struct KvArenas(Arena<Clock>, Arena<Box<dyn Modulator>>, Arena<Listener>);
impl KvArenas { fn empty() -> Self { KvArenas(Arena::new(0), Arena::new(0), Arena::new(0)) } fn info(&self) -> Info<'_> { Info::new(&self.0, &self.1, &self.2, None) } }

fn kv_small() -> f32 { let v: i8 = kani::any(); kani::assume(v >= -8 && v <= 8); v as f32 }

/// a streaming sound whose ring holds `n` (0..=5) frames with symbolic small-integer values
fn kv_streaming(n: usize, rate: f64, frac: f64) -> (StreamingSound, rtrb::Producer<TimestampedFrame>, [Frame; 5], [usize; 5]) {
	let (mut prod, cons) = RingBuffer::new(8);
	let mut fr = [Frame::ZERO; 5];
	let mut ix = [0usize; 5];
	let mut k = 0;
	while k < n { fr[k] = Frame::new(kv_small(), kv_small()); ix[k] = kani::any(); prod.push(TimestampedFrame { frame: fr[k], index: ix[k] }).ok().unwrap(); k += 1; }
	let (w, readers, sr) = command_writers_and_readers();
	std::mem::forget(w); std::mem::forget(sr);
	let s = StreamingSound {
		command_readers: readers, sample_rate: 1, frame_consumer: cons, start_time: StartTime::Immediate,
		playback_state_manager: PlaybackStateManager::new(None), current_frame: 0, fractional_position: frac,
		volume: Parameter::new(Value::Fixed(Decibels::IDENTITY), Decibels::IDENTITY),
		playback_rate: Parameter::new(Value::Fixed(PlaybackRate(rate)), PlaybackRate(1.0)),
		panning: Parameter::new(Value::Fixed(Panning::CENTER), Panning::CENTER),
		shared: Arc::new(Shared::new()),
	};
	(s, prod, fr, ix)
}

// @h prop=C09,C10,C04 tier=quick kind=main timeout=900
// @bounds ONE callback of one frame at rate 1 with 0..5 frames buffered (symbolic count and contents), end-of-stream flag symbolic
// @funcs StreamingSound::{process,next_frames}, interpolate_frame, Frame::panned, Decibels::as_amplitude
// @catches output not the 'current' frame (slot 1) - i.e. a latency or alignment different from the static sound's; a slow decoder causing repeated or foreign frames instead of a gap of silence (slots() < 2); popping more or fewer than one frame per output frame; Stopped not reported when the stream has ended and drained
#[kani::proof]
#[kani::unwind(8)]
fn c09_streaming_one_callback_from_any_buffer() {
	let a = KvArenas::empty();
	let info = a.info();
	let n: usize = kani::any();
	kani::assume(n <= 5);
	let (mut s, prod, fr, _ix) = kv_streaming(n, 1.0, 0.0);
	let ended: bool = kani::any();
	if ended { s.shared.reached_end.store(true, Ordering::SeqCst); }
	let mut out = [Frame::new(7.0, 7.0); 1];
	s.process(&mut out, 1.0, &info);
	if n < 2 && !ended {
		assert!(out[0] == Frame::ZERO && s.frame_consumer.slots() == n && !s.finished(), "a decoder that is merely slow causes a gap of exact silence: nothing is consumed, nothing repeated");
	} else {
		let want = if n >= 2 { fr[1] } else { Frame::ZERO };
		assert!(out[0].left.to_bits() == want.left.to_bits() && out[0].right.to_bits() == want.right.to_bits() || (out[0] == want), "at rate 1 the output is the 'current' frame (slot 1), exactly as for a static sound");
		assert!(s.frame_consumer.slots() == if n == 0 { 0 } else { n - 1 }, "exactly one frame is consumed per output frame");
		assert!(s.finished() == (ended && n <= 1), "Stopped exactly when the stream has ended and the buffer has drained");
		assert!(s.shared.state() == if s.finished() { PlaybackState::Stopped } else { PlaybackState::Playing });
	}
	kani::cover!(n == 1 && !ended, "w:starving");
	kani::cover!(n == 4 && !ended, "w:decoder-ahead");
	kani::cover!(n == 1 && ended, "w:last-frame");
	std::mem::forget(s); std::mem::forget(prod);
}

// @h prop=C10,C03 tier=quick kind=main timeout=900
// @bounds the decoder-error flag raised while the sound is in ANY of the seven playback states or still waiting for its start time; 3 frames buffered; one callback
// @funcs StreamingSound::process
// @catches a decode error being ignored while the sound is paused / waiting (the sound then never becomes Stopped, is never unloaded, and its decoder thread spins forever)
#[kani::proof]
#[kani::unwind(8)]
fn c10_decoder_error_stops_the_sound_in_every_state() {
	let a = KvArenas::empty();
	let info = a.info();
	let (mut s, prod, _fr, _ix) = kv_streaming(3, 1.0, 0.0);
	let sel: u8 = kani::any();
	kani::assume(sel < 7);
	let st = match sel { 0 => PlaybackState::Playing, 1 => PlaybackState::Pausing, 2 => PlaybackState::Paused, 3 => PlaybackState::WaitingToResume, 4 => PlaybackState::Resuming, 5 => PlaybackState::Stopping, _ => PlaybackState::Stopped };
	s.playback_state_manager = PlaybackStateManager::kv_forced(st, StartTime::Delayed(Duration::from_secs(100)));
	if kani::any() { s.start_time = StartTime::Delayed(Duration::from_secs(100)); }
	s.shared.encountered_error.store(true, Ordering::SeqCst);
	let mut out = [Frame::new(7.0, 7.0); 1];
	s.process(&mut out, 1.0, &info);
	assert!(out[0] == Frame::ZERO && s.finished() && s.shared.state() == PlaybackState::Stopped, "if the decoder reports an error the sound becomes Stopped and emits no further audio, whatever state it was in");
	kani::cover!(sel == 2, "w:error-while-paused");
	std::mem::forget(s); std::mem::forget(prod);
}

// @h prop=C03,C09 tier=quick kind=main timeout=900
// @bounds a streaming sound Paused, WaitingToResume or Stopped, or still before its own start time, with 4 frames buffered: one callback
// @funcs StreamingSound::process
// @catches a frozen streaming sound emitting audio or consuming buffered frames (its position would advance)
#[kani::proof]
#[kani::unwind(8)]
fn c03_streaming_frozen_states_are_silent_and_still() {
	let a = KvArenas::empty();
	let info = a.info();
	let (mut s, prod, _fr, _ix) = kv_streaming(4, 1.0, 0.0);
	let which: u8 = kani::any();
	kani::assume(which < 4);
	match which {
		0 => s.playback_state_manager = PlaybackStateManager::kv_forced(PlaybackState::Paused, StartTime::Immediate),
		1 => s.playback_state_manager = PlaybackStateManager::kv_forced(PlaybackState::WaitingToResume, StartTime::Delayed(Duration::from_secs(100))),
		2 => s.playback_state_manager = PlaybackStateManager::kv_forced(PlaybackState::Stopped, StartTime::Immediate),
		_ => s.start_time = StartTime::Delayed(Duration::from_secs(100)),
	}
	let mut out = [Frame::new(7.0, 7.0); 1];
	s.process(&mut out, 1.0, &info);
	assert!(out[0] == Frame::ZERO && s.frame_consumer.slots() == 4 && s.fractional_position == 0.0, "exact silence, and nothing consumed, while frozen");
	kani::cover!(which == 3, "w:before-start-time");
	std::mem::forget(s); std::mem::forget(prod);
}

static mut KV_IF: (u32, f32, [Frame; 4]) = (0, 0.0, [Frame::ZERO; 4]);
fn kv_interpolate_frame_spy(p: Frame, c: Frame, n1: Frame, n2: Frame, fraction: f32) -> Frame {
	unsafe { KV_IF = (KV_IF.0 + 1, fraction, [p, c, n1, n2]); }
	c
}

// @h prop=C09,C04 tier=quick kind=main timeout=900
// @bounds one callback at playback rate 1/2 (phase 0 or 1/2) or 2, with 5 frames buffered: the four frames interpolated, the sub-frame position, and the number of frames consumed
// @funcs StreamingSound::{process,next_frames}
// @assume interpolate_frame replaced by a recording stand-in
// @catches the streaming sound interpolating a different window or at a different phase than the static sound, or stepping by a different amount
#[kani::proof]
#[kani::unwind(8)]
#[kani::stub(crate::frame::interpolate_frame, kv_interpolate_frame_spy)]
fn c09_streaming_fractional_rates_match_the_static_stepping() {
	let a = KvArenas::empty();
	let info = a.info();
	let sel: u8 = kani::any();
	kani::assume(sel < 3);
	let (rate, frac) = match sel { 0 => (0.5, 0.0), 1 => (0.5, 0.5), _ => (2.0, 0.0) };
	let (mut s, prod, fr, _ix) = kv_streaming(5, rate, frac);
	let mut out = [Frame::ZERO; 1];
	s.process(&mut out, 1.0, &info);
	let steps = (frac + rate) as usize;
	if !cfg!(kv_native) { unsafe {
		assert!(KV_IF.0 == 1 && KV_IF.1 == frac as f32 && KV_IF.2[0] == fr[0] && KV_IF.2[1] == fr[1] && KV_IF.2[2] == fr[2] && KV_IF.2[3] == fr[3], "one 4-point interpolation of [previous, current, next, next+1] at the accumulated phase");
	} }
	assert!(s.frame_consumer.slots() == 5 - steps && s.fractional_position == frac + rate - steps as f64, "position accumulates rate x source-rate x dt, as in the static sound");
	kani::cover!(sel == 1, "w:half-rate-carry");
	std::mem::forget(s); std::mem::forget(prod);
}

// @h prop=C09,C04 tier=quick kind=main timeout=900
// @bounds the reported position with the ring's read index on the LAST slot of the 8-slot ring, so that 2..4 buffered frames straddle the wrap-around; 1..4 frames buffered (symbolic), symbolic indices
// @funcs StreamingSound::{on_start_processing,update_current_frame,position}
// @catches the frame being heard (slot 1) looked up in the first slice of the ring only: the reported position goes stale whenever the buffered frames wrap around the end of the ring
#[kani::proof]
#[kani::unwind(10)]
fn c09_streaming_reported_position_follows_the_heard_frame_across_ring_wrap() { kv_reported_position_body(7); }

// @h prop=C09,C04 tier=quick kind=main timeout=900
// @bounds as above with the buffered frames at the start of the ring (no wrap)
// @funcs StreamingSound::{on_start_processing,update_current_frame,position}
#[kani::proof]
#[kani::unwind(10)]
fn c09_streaming_reported_position_follows_the_heard_frame_no_wrap() { kv_reported_position_body(0); }

fn kv_reported_position_body(rot: usize) {
	let (mut prod, cons) = RingBuffer::new(8);
	let (w, readers, sr) = command_writers_and_readers();
	std::mem::forget(w); std::mem::forget(sr);
	let mut s = StreamingSound {
		command_readers: readers, sample_rate: 1, frame_consumer: cons, start_time: StartTime::Immediate,
		playback_state_manager: PlaybackStateManager::new(None), current_frame: 77, fractional_position: 0.0,
		volume: Parameter::new(Value::Fixed(Decibels::IDENTITY), Decibels::IDENTITY),
		playback_rate: Parameter::new(Value::Fixed(PlaybackRate(1.0)), PlaybackRate(1.0)),
		panning: Parameter::new(Value::Fixed(Panning::CENTER), Panning::CENTER),
		shared: Arc::new(Shared::new()),
	};
	// rotate the ring: push and pop `rot` frames first (concrete per harness: with a symbolic rotation the formula of the
	// playback run - which is not sliced - has 41 M variables and no counterexample can be extracted)
	let mut k = 0;
	while k < rot { prod.push(TimestampedFrame { frame: Frame::ZERO, index: 0 }).ok().unwrap(); s.frame_consumer.pop().ok().unwrap(); k += 1; }
	let n: usize = kani::any();
	kani::assume(n >= 1 && n <= 4);
	let idx: [u8; 4] = kani::any();
	k = 0;
	while k < n { prod.push(TimestampedFrame { frame: Frame::ZERO, index: idx[k] as usize }).ok().unwrap(); k += 1; }
	s.on_start_processing();
	let want = if n >= 2 { idx[1] as usize } else { 77 };
	assert!(s.current_frame == want, "the reported position names the frame being heard (slot 1 of the buffered frames), wherever they sit in the ring");
	assert!(s.shared.position() == want as f64);
	kani::cover!(n == 3, "w:three-frames-buffered");
	std::mem::forget(s); std::mem::forget(prod);
}

// (C09: a lock-step harness - a real static sound from StaticSoundData::into_sound and a real StreamingSound over the same
// 5 frames, 3 callbacks, one shared uninterpreted interpolate_frame - produced 24 M SAT variables and ran out of memory at
// 32 GB; it was removed. The equality of whole outputs rests on the two one-step relations above and in c04_static_sound.rs.)

// @h prop=C03,C07 tier=quick kind=main timeout=900
// @bounds a streaming sound in ANY live state (Playing, Pausing, Paused, WaitingToResume, Resuming, Stopping); in ONE callback interval the handle issued stop() together with pause() and/or resume()/resume_at() (any subset, symbolic); one on_start_processing
// @funcs StreamingSound::on_start_processing, StreamingSound::read_commands, StreamingSound::{pause,resume,stop}, PlaybackStateManager::{pause,resume,stop}
// @catches stop() being overridden by a pause or resume issued in the same callback interval (the sound would never reach Stopped and never be unloaded): "stop: Stopping then Stopped" must hold for the command sequence pause, stop as it does for static sounds
#[kani::proof]
#[kani::unwind(8)]
fn c03_streaming_stop_wins_over_pause_and_resume_in_the_same_interval() {
	let (mut prod, cons) = RingBuffer::new(8);
	prod.push(TimestampedFrame { frame: Frame::ZERO, index: 0 }).ok().unwrap();
	let (mut w, readers, sr) = command_writers_and_readers();
	std::mem::forget(sr);
	let mut s = StreamingSound {
		command_readers: readers, sample_rate: 1, frame_consumer: cons, start_time: StartTime::Immediate,
		playback_state_manager: PlaybackStateManager::new(None), current_frame: 0, fractional_position: 0.0,
		volume: Parameter::new(Value::Fixed(Decibels::IDENTITY), Decibels::IDENTITY),
		playback_rate: Parameter::new(Value::Fixed(PlaybackRate(1.0)), PlaybackRate(1.0)),
		panning: Parameter::new(Value::Fixed(Panning::CENTER), Panning::CENTER),
		shared: Arc::new(Shared::new()),
	};
	let sel: u8 = kani::any();
	kani::assume(sel < 6);
	let st = match sel { 0 => PlaybackState::Playing, 1 => PlaybackState::Pausing, 2 => PlaybackState::Paused, 3 => PlaybackState::WaitingToResume, 4 => PlaybackState::Resuming, _ => PlaybackState::Stopping };
	s.playback_state_manager = PlaybackStateManager::kv_forced(st, StartTime::Delayed(Duration::from_secs(100)));
	s.shared.set_state(st);
	let tw = Tween { start_time: StartTime::Immediate, duration: Duration::from_millis(250), easing: crate::Easing::Linear };
	let with_pause: bool = kani::any();
	let with_resume: u8 = kani::any();
	kani::assume(with_resume < 3);
	if with_pause { w.pause.write(tw); }
	if with_resume == 1 { w.resume.write((StartTime::Immediate, tw)); }
	if with_resume == 2 { w.resume.write((StartTime::Delayed(Duration::from_secs(5)), tw)); }
	w.stop.write(tw);
	s.on_start_processing();
	assert!(s.playback_state_manager.playback_state() == PlaybackState::Stopping, "a stop issued in this interval leaves the sound Stopping, whatever else was issued with it");
	assert!(s.shared.state() == PlaybackState::Stopping, "and the handle reports it");
	kani::cover!(with_pause && sel == 0, "w:pause+stop while playing");
	kani::cover!(with_resume == 1 && sel == 2, "w:resume+stop while paused");
	std::mem::forget(s); std::mem::forget(prod); std::mem::forget(w);
}

// @h prop=C09,C03,C10 tier=quick kind=main timeout=900
// @bounds the decoder has reached the end of the audio and 1..=3 frames are left in the ring; playback rate 2 or 3 (a step of 2 or 3 frames per output frame, possibly MORE than what is left); one callback of one frame
// @funcs StreamingSound::process
// @catches frames consumed all-or-nothing (a step larger than the remaining frames consumes nothing, so the ring never empties, the sound never becomes Stopped and is never unloaded, while the static sound of the same audio ends); wrong number of frames consumed at rates above 1
#[kani::proof]
#[kani::unwind(8)]
fn c09_streaming_fast_playback_drains_the_ring_and_ends() {
	let a = KvArenas::empty();
	let info = a.info();
	let n: usize = kani::any();
	kani::assume(n >= 1 && n <= 3);
	let fast: bool = kani::any();
	let (rate, step) = if fast { (3.0, 3usize) } else { (2.0, 2usize) };
	let (mut s, prod, _fr, _ix) = match n { 1 => kv_streaming(1, rate, 0.0), 2 => kv_streaming(2, rate, 0.0), _ => kv_streaming(3, rate, 0.0) };
	s.shared.reached_end.store(true, Ordering::SeqCst);
	let mut out = [Frame::ZERO; 1];
	s.process(&mut out, 1.0, &info);
	let left = if n > step { n - step } else { 0 };
	assert!(s.frame_consumer.slots() == left, "the step consumes as many frames as it spans, or all that are left");
	assert!(s.finished() == (left == 0), "once the decoder is done and the ring is empty the sound is Stopped (and only then)");
	if left == 0 { assert!(s.shared.state() == PlaybackState::Stopped, "and the handle reports it"); }
	kani::cover!(n == 1 && !fast, "w:one-frame-left-at-rate-2");
	kani::cover!(n == 3 && !fast, "w:not-yet-empty");
	std::mem::forget(s); std::mem::forget(prod);
}
