// @append src/clock/clock_speed.rs
// C19: semitones and clock-speed units.
include!(concat!(env!("KV_HARNESS_DIR"), "/lib/libm.rs"));
use crate::{PlaybackRate, Semitones};

static mut KV_SPY_B: f64 = 0.0;
static mut KV_SPY_E: f64 = 0.0;
static mut KV_SPY_CALLS: u32 = 0;
fn kv_powf64_spy(b: f64, e: f64) -> f64 { unsafe { KV_SPY_B = b; KV_SPY_E = e; KV_SPY_CALLS += 1; } kv_powf64(b, e) }

// @h prop=C19 tier=quick kind=main
// @bounds every finite f64 semitone value
// @funcs <PlaybackRate as From<Semitones>>::from
// @assume powf contract stub (pow(2,1)=2, pow(2,0)=1, >=1 for positive exponents)
// @catches twelve semitones not doubling the rate (wrong divisor or base)
#[kani::proof]
#[kani::unwind(2)]
#[kani::stub(f64::powf, kv_powf64_spy)]
fn c19_semitones_to_rate() {
	let s: f64 = kani::any();
	kani::assume(s.is_finite());
	let r: PlaybackRate = Semitones(s).into();
	if cfg!(kv_native) { assert!(r.0.to_bits() == 2.0f64.powf(s / 12.0).to_bits(), "native: rate == 2^(semitones/12)"); }
	else { unsafe { assert!(KV_SPY_CALLS == 1 && KV_SPY_B == 2.0 && KV_SPY_E.to_bits() == (s / 12.0).to_bits(), "rate = 2^(semitones/12)"); } }
	if s == 12.0 { assert!(r.0 == 2.0, "twelve semitones double the playback rate"); }
	if s == 0.0 { assert!(r.0 == 1.0); }
	if s > 0.0 { assert!(r.0 >= 1.0); }
	if s < 0.0 { assert!(r.0 <= 1.0 && r.0 >= 0.0); }
	kani::cover!(s == 12.0, "w:octave");
	kani::cover!(s < 0.0, "w:down");
}

fn kv_pow2(k: i32) -> f64 { f64::from_bits(((1023 + k) as u64) << 52) }
// 60 * 2^k = 1.875 * 2^(k+5)
fn kv_60_pow2(k: i32) -> f64 { f64::from_bits((((1023 + 5 + k) as u64) << 52) | (0xE << 48)) }

// @h prop=C19 tier=quick kind=main
// @bounds speeds x = 2^k and x = 60*2^k for every k in [-40,40] (the families on which every conversion is exact, so the expected value is written without a second divider), plus self-conversion for every f64 bit pattern
// @funcs ClockSpeed::as_seconds_per_tick, ClockSpeed::as_ticks_per_second, ClockSpeed::as_ticks_per_minute
// @catches a conversion using the wrong constant or the wrong direction (x*60 vs x/60, 1/x)
#[kani::proof]
#[kani::unwind(2)]
fn c19_clock_speed_units_consistent() {
	let y: f64 = kani::any();
	let same = |a: f64, b: f64| a.to_bits() == b.to_bits();
	assert!(same(ClockSpeed::SecondsPerTick(y).as_seconds_per_tick(), y) && same(ClockSpeed::TicksPerSecond(y).as_ticks_per_second(), y)
		&& same(ClockSpeed::TicksPerMinute(y).as_ticks_per_minute(), y), "a unit converts to itself unchanged");
	let k: i32 = kani::any();
	kani::assume(k >= -40 && k <= 40);
	let x = kv_pow2(k);
	assert!(kv_pow2(0) == 1.0 && kv_pow2(3) == 8.0 && kv_60_pow2(0) == 60.0 && kv_60_pow2(1) == 120.0 && kv_60_pow2(-2) == 15.0);
	// ticks per second <-> seconds per tick: reciprocal
	assert!(same(ClockSpeed::TicksPerSecond(x).as_seconds_per_tick(), kv_pow2(-k)));
	assert!(same(ClockSpeed::SecondsPerTick(x).as_ticks_per_second(), kv_pow2(-k)));
	// a minute is 60 seconds
	assert!(same(ClockSpeed::TicksPerSecond(x).as_ticks_per_minute(), kv_60_pow2(k)));
	assert!(same(ClockSpeed::TicksPerMinute(kv_60_pow2(k)).as_ticks_per_second(), x));
	assert!(same(ClockSpeed::SecondsPerTick(x).as_ticks_per_minute(), kv_60_pow2(-k)));
	assert!(same(ClockSpeed::TicksPerMinute(kv_60_pow2(k)).as_seconds_per_tick(), kv_pow2(-k)));
	kani::cover!(k == 1, "w:two-ticks-per-second");
	kani::cover!(k < 0, "w:slow");
}

// @h prop=C19,C06 tier=quick kind=main
// @bounds any two units; source value 2^k or 60*2^k (k in [-40,40], exact conversions), any target value and amount: the interpolated speed is expressed in the TARGET's unit and is interpolate(source converted to that unit, target, amount)
// @funcs <ClockSpeed as Tweenable>::interpolate
// @assume <f64 as Tweenable>::interpolate replaced by a memoised uninterpreted function
// @catches interpolation done in the source's unit or without converting the source
#[kani::proof]
#[kani::unwind(2)]
#[kani::stub(<f64 as Tweenable>::interpolate, kv_interp64)]
fn c19_clock_speed_interpolates_in_target_unit() {
	let mk = |sel: u8, v: f64| match sel { 0 => ClockSpeed::SecondsPerTick(v), 1 => ClockSpeed::TicksPerSecond(v), _ => ClockSpeed::TicksPerMinute(v) };
	let (sa, sb): (u8, u8) = (kani::any(), kani::any());
	kani::assume(sa < 3 && sb < 3);
	let k: i32 = kani::any();
	kani::assume(k >= -40 && k <= 40);
	let (vb, t): (f64, f64) = (kani::any(), kani::any());
	// source: 2^k in its own unit (60*2^k when it is ticks per minute)
	let a = mk(sa, if sa == 2 { kv_60_pow2(k) } else { kv_pow2(k) });
	// the same speed in each unit, written without arithmetic
	let tps = if sa == 0 { kv_pow2(-k) } else { kv_pow2(k) };
	let kk = if sa == 0 { -k } else { k };
	let (as_spt, as_tps, as_tpm) = (kv_pow2(-kk), kv_pow2(kk), kv_60_pow2(kk));
	let _ = tps;
	let b = mk(sb, vb);
	let r = <ClockSpeed as Tweenable>::interpolate(a, b, t);
	let same = |x: f64, y: f64| x.to_bits() == y.to_bits() || (x.is_nan() && y.is_nan());
	if cfg!(kv_native) {
		let lerp = |a: f64| a + (vb - a) * t;
		match (b, r) {
			(ClockSpeed::SecondsPerTick(_), ClockSpeed::SecondsPerTick(v)) => assert!(same(v, lerp(as_spt))),
			(ClockSpeed::TicksPerSecond(_), ClockSpeed::TicksPerSecond(v)) => assert!(same(v, lerp(as_tps))),
			(ClockSpeed::TicksPerMinute(_), ClockSpeed::TicksPerMinute(v)) => assert!(same(v, lerp(as_tpm))),
			_ => assert!(false, "native: the interpolated speed stays in the target's unit"),
		}
		return;
	}
	match (b, r) {
		(ClockSpeed::SecondsPerTick(_), ClockSpeed::SecondsPerTick(v)) => assert!(same(v, <f64 as Tweenable>::interpolate(as_spt, vb, t))),
		(ClockSpeed::TicksPerSecond(_), ClockSpeed::TicksPerSecond(v)) => assert!(same(v, <f64 as Tweenable>::interpolate(as_tps, vb, t))),
		(ClockSpeed::TicksPerMinute(_), ClockSpeed::TicksPerMinute(v)) => assert!(same(v, <f64 as Tweenable>::interpolate(as_tpm, vb, t))),
		_ => assert!(false, "the interpolated speed stays in the target's unit"),
	}
	kani::cover!(sa == 0 && sb == 2, "w:cross-unit");
	kani::cover!(sa == 2 && sb == 0, "w:cross-unit-back");
}
