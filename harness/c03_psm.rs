// @append src/playback_state_manager.rs
// @requires kv_param_peek.rs
// @requires kv_clock_force.rs
// C03 (and the track half of C12): the playback state machine, one step from ANY state that
// satisfies the representation invariant kv_inv (so histories of any depth are covered).
include!(concat!(env!("KV_HARNESS_DIR"), "/lib/libm.rs"));

use crate::clock::{Clock, ClockSpeed, ClockTime, ClockId};
use crate::listener::Listener;
use crate::modulator::Modulator;
use crate::{Easing, Tweenable};
use atomic_arena::Arena;
use std::time::Duration;

struct KvArenas(Arena<Clock>, Arena<Box<dyn Modulator>>, Arena<Listener>);
impl KvArenas {
	fn empty() -> Self { KvArenas(Arena::new(0), Arena::new(0), Arena::new(0)) }
	fn info(&self) -> Info<'_> { Info::new(&self.0, &self.1, &self.2, None) }
}

// memoised stand-in for Tween::value (see c06_parameter.rs)
static mut KV_TV_TAB: [(f64, f64); 2] = [(0.0, 0.0); 2];
static mut KV_TV_N: usize = 0;
fn kv_tween_value(_tw: &Tween, time: f64) -> f64 {
	unsafe {
		if KV_TV_N > 0 && KV_TV_TAB[0].0.to_bits() == time.to_bits() { return KV_TV_TAB[0].1; }
		if KV_TV_N > 1 && KV_TV_TAB[1].0.to_bits() == time.to_bits() { return KV_TV_TAB[1].1; }
		let r: f64 = kani::any();
		kani::assume(r >= 0.0 && r <= 1.0);
		if KV_TV_N < 2 { KV_TV_TAB[KV_TV_N] = (time, r); KV_TV_N += 1; }
		r
	}
}

fn kv_duration(sel: u8) -> Duration {
	match sel % 4 { 0 => Duration::ZERO, 1 => Duration::from_millis(10), 2 => Duration::from_millis(250), _ => Duration::from_secs(2) }
}
fn kv_tween(sel: u8) -> Tween { Tween { start_time: StartTime::Immediate, duration: kv_duration(sel), easing: Easing::Linear } }

#[derive(Clone, Copy, PartialEq)]
enum KvFade { IdleSilence, IdleIdentity, ToSilence, ToIdentity }

/// symbolic fade parameter of the given shape
fn kv_fade(shape: KvFade, dsel: u8) -> Parameter<Decibels> {
	match shape {
		KvFade::IdleSilence => Parameter::new(Value::Fixed(Decibels::SILENCE), Decibels::SILENCE),
		KvFade::IdleIdentity => Parameter::new(Value::Fixed(Decibels::IDENTITY), Decibels::IDENTITY),
		KvFade::ToSilence | KvFade::ToIdentity => {
			let from: f32 = kani::any();
			kani::assume(from >= -60.0 && from <= 0.0);
			let mut p = Parameter::new(Value::Fixed(Decibels(from)), Decibels(from));
			p.set(Value::Fixed(if shape == KvFade::ToSilence { Decibels::SILENCE } else { Decibels::IDENTITY }), kv_tween(dsel));
			p
		}
	}
}

/// the representation invariant: which fade shapes can accompany which state
fn kv_shape_allowed(state: u8, shape: KvFade) -> bool {
	match state {
		0 => shape == KvFade::IdleIdentity || shape == KvFade::ToIdentity, // Playing
		1 | 5 => shape == KvFade::ToSilence,                               // Pausing, Stopping
		2 => shape == KvFade::IdleSilence,                                 // Paused
		3 => true,                                                         // WaitingToResume (resume_at may follow anything)
		4 => shape == KvFade::ToIdentity,                                  // Resuming
		_ => true,                                                         // Stopped (natural end may come from anywhere)
	}
}

fn kv_state(sel: u8, start_time: StartTime, dsel: u8) -> State {
	match sel {
		0 => State::Playing, 1 => State::Pausing, 2 => State::Paused,
		3 => State::WaitingToResume { start_time, fade_in_tween: kv_tween(dsel) },
		4 => State::Resuming, 5 => State::Stopping, _ => State::Stopped,
	}
}

fn kv_any_shape() -> KvFade {
	let s: u8 = kani::any();
	match s % 4 { 0 => KvFade::IdleSilence, 1 => KvFade::IdleIdentity, 2 => KvFade::ToSilence, _ => KvFade::ToIdentity }
}

/// checks the invariant on the POST state
fn kv_check_inv(psm: &PlaybackStateManager) {
	let v = psm.volume_fade.value().0;
	match psm.playback_state() {
		PlaybackState::Paused => assert!(v == -60.0 && Decibels(v).as_amplitude() == 0.0, "a paused sound sits at exactly silence"),
		PlaybackState::Pausing | PlaybackState::Stopping => assert!(kv_target_is(psm, Decibels::SILENCE), "fading towards silence"),
		PlaybackState::Resuming => assert!(kv_target_is(psm, Decibels::IDENTITY), "fading towards unity"),
		_ => {}
	}
}
fn kv_target_is(psm: &PlaybackStateManager, d: Decibels) -> bool {
	psm.volume_fade.kv_fixed_tween_target() == Some(d)
}

// @h prop=C03,C12 tier=quick kind=main
// @bounds every state x every fade shape allowed by the invariant x command in {pause, resume(Immediate), resume(Delayed 1s), stop, mark_as_stopped}; fade-out/in tween durations from {0, 10 ms, 250 ms, 2 s}; fade level in [-60,0] dB
// @funcs PlaybackStateManager::pause, ::resume, ::stop, ::mark_as_stopped, ::playback_state, Parameter::set
// @catches a command ignored in WaitingToResume/Paused (not only in Stopped); Stopped not absorbing; wrong target of a fade; resume_at not entering WaitingToResume
#[kani::proof]
#[kani::unwind(2)]
fn c03_psm_command_successors() {
	let sel: u8 = kani::any();
	kani::assume(sel < 7);
	let shape = kv_any_shape();
	kani::assume(kv_shape_allowed(sel, shape));
	let (d0, d1, d2): (u8, u8, u8) = (kani::any(), kani::any(), kani::any());
	let mut psm = PlaybackStateManager { state: kv_state(sel, StartTime::Delayed(Duration::from_secs(1)), d0), volume_fade: kv_fade(shape, d1) };
	let before = psm.playback_state();
	let level_before = psm.volume_fade.value().0;
	let cmd: u8 = kani::any();
	kani::assume(cmd < 5);
	match cmd {
		0 => psm.pause(kv_tween(d2)),
		1 => psm.resume(StartTime::Immediate, kv_tween(d2)),
		2 => psm.resume(StartTime::Delayed(Duration::from_secs(1)), kv_tween(d2)),
		3 => psm.stop(kv_tween(d2)),
		_ => psm.mark_as_stopped(),
	}
	let after = psm.playback_state();
	if before == PlaybackState::Stopped {
		assert!(after == PlaybackState::Stopped, "Stopped is permanent: further commands are ignored");
	} else {
		match cmd {
			0 => assert!(after == PlaybackState::Pausing, "pause: Pausing"),
			1 => assert!(after == PlaybackState::Resuming, "resume: Resuming"),
			2 => assert!(after == PlaybackState::WaitingToResume, "resume_at: WaitingToResume until the start time"),
			3 => assert!(after == PlaybackState::Stopping, "stop: Stopping"),
			_ => assert!(after == PlaybackState::Stopped),
		}
	}
	assert!(psm.volume_fade.value().0 == level_before, "a command never makes the gain jump");
	if cmd != 4 { kv_check_inv(&psm); }
	kani::cover!(sel == 3 && cmd == 0, "w:pause-while-waiting-to-resume");
	kani::cover!(sel == 2 && cmd == 3, "w:stop-while-paused");
	kani::cover!(sel == 6 && cmd == 1, "w:resume-after-stopped");
}

fn kv_update_body(dt_is_symbolic: bool) {
	let a = KvArenas::empty();
	let info = a.info();
	let sel: u8 = kani::any();
	kani::assume(sel < 7 && sel != 3);
	let shape = kv_any_shape();
	kani::assume(kv_shape_allowed(sel, shape));
	let (d0, d1): (u8, u8) = (kani::any(), kani::any());
	let mut psm = PlaybackStateManager { state: kv_state(sel, StartTime::Immediate, d0), volume_fade: kv_fade(shape, d1) };
	let before = psm.playback_state();
	let dt: f64 = if dt_is_symbolic { kani::any() } else { 0.125 };
	kani::assume(dt > 0.0 && dt <= 4.0);
	let tweening = shape == KvFade::ToSilence || shape == KvFade::ToIdentity;
	let fade_finishes = tweening && dt >= kv_duration(d1).as_secs_f64();
	let changed = psm.update(dt, &info);
	let after = psm.playback_state();
	let want = match before {
		PlaybackState::Pausing => if fade_finishes { PlaybackState::Paused } else { PlaybackState::Pausing },
		PlaybackState::Resuming => if fade_finishes { PlaybackState::Playing } else { PlaybackState::Resuming },
		PlaybackState::Stopping => if fade_finishes { PlaybackState::Stopped } else { PlaybackState::Stopping },
		s => s,
	};
	assert!(after == want, "each fade-driven step completes in the update in which its tween completes, and not before");
	assert!(changed == (before != after));
	if fade_finishes {
		let v = psm.volume_fade.value().0;
		if shape == KvFade::ToSilence { assert!(v == -60.0 && Decibels(v).as_amplitude() == 0.0, "arrives at exactly silence"); }
		else { assert!(v == 0.0 && Decibels(v).as_amplitude() == 1.0, "arrives at exactly unity"); }
	}
	kv_check_inv(&psm);
	kani::cover!(before == PlaybackState::Pausing && after == PlaybackState::Paused, "w:pausing->paused");
	kani::cover!(before == PlaybackState::Stopping && after == PlaybackState::Stopping, "w:still-stopping");
	kani::cover!(before == PlaybackState::Resuming && after == PlaybackState::Playing, "w:resuming->playing");
}

// @h prop=C03,C12 tier=quick kind=main
// @bounds update(dt) with dt in (0,4] s symbolic, from every state except WaitingToResume, every allowed fade shape freshly set (elapsed 0), durations {0, 10 ms, 250 ms, 2 s}
// @funcs PlaybackStateManager::update, Parameter::<Decibels>::update
// @assume Tween::value and <f32 as Tweenable>::interpolate replaced by memoised stand-ins; Duration::from_secs_f64 arbitrary (no Delayed start in these states)
// @catches Pausing/Stopping/Resuming completing early, late or never; Playing/Paused/Stopped changing on their own; arrival gain not exactly -60 dB / 0 dB
#[kani::proof]
#[kani::unwind(2)]
#[kani::stub(Tween::value, kv_tween_value)]
#[kani::stub(<f32 as Tweenable>::interpolate, kv_interp32)]
#[kani::stub(Duration::from_secs_f64, kv_duration_from_secs_any)]
fn c03_psm_update_fade_driven_steps() { kv_update_body(true); }

fn kv_clock_arena(present: bool, ticking: bool, ticks: u64, fraction: f64) -> (Arena<Clock>, ClockId) {
	let mut arena: Arena<Clock> = Arena::new(1);
	let key = arena.controller().try_reserve().unwrap();
	let id = ClockId(key);
	if present {
		let (mut clock, handle) = Clock::new(Value::Fixed(ClockSpeed::TicksPerSecond(1.0)), id);
		clock.kv_force(ticking, ticks, fraction);
		arena.insert_with_key(key, clock).unwrap();
		std::mem::forget(handle);
	}
	(arena, id)
}

// @h prop=C03,C05,C12 tier=quick kind=main
// @bounds WaitingToResume on a clock time: clock present/absent, ticking or not, clock at symbolic (ticks <= 2^40, fraction in [0,1)), target symbolic; dt = 1/8 s; fade-in durations {0, 10 ms, 250 ms, 2 s}
// @funcs PlaybackStateManager::update (WaitingToResume arm), StartTime::update, Info::when_to_start, Info::clock_info
// @catches resuming before the clock reaches the time or while it is paused; not cancelling (Stopped) when the clock is gone; `>=` vs `>` at the exact start time
#[kani::proof]
#[kani::unwind(3)]
#[kani::stub(Tween::value, kv_tween_value)]
#[kani::stub(<f32 as Tweenable>::interpolate, kv_interp32)]
fn c03_psm_waiting_on_clock() {
	let present: bool = kani::any();
	let ticking: bool = kani::any();
	let ticks: u64 = kani::any();
	let fraction: f64 = kani::any();
	let tt: u64 = kani::any();
	let tf: f64 = kani::any();
	kani::assume(ticks <= (1 << 40) && tt <= (1 << 40) && fraction >= 0.0 && fraction < 1.0 && tf >= 0.0 && tf < 1.0);
	let shape = kv_any_shape();
	let (d0, d1): (u8, u8) = (kani::any(), kani::any());
	let (clocks, id) = kv_clock_arena(present, ticking, ticks, fraction);
	let a = KvArenas::empty();
	let info = Info::new(&clocks, &a.1, &a.2, None);
	let target = ClockTime { clock: id, ticks: tt, fraction: tf };
	let mut psm = PlaybackStateManager { state: kv_state(3, StartTime::ClockTime(target), d0), volume_fade: kv_fade(shape, d1) };
	let changed = psm.update(0.125, &info);
	let after = psm.playback_state();
	let reached = ticks > tt || (ticks == tt && fraction >= tf);
	if !present {
		assert!(after == PlaybackState::Stopped && changed, "a sound waiting on a clock that no longer exists becomes Stopped");
	} else if ticking && reached {
		assert!(after == PlaybackState::Resuming && changed, "resumes in the update in which the clock has reached the time");
		assert!(kv_target_is(&psm, Decibels::IDENTITY));
	} else {
		assert!(after == PlaybackState::WaitingToResume && !changed, "never resumes early or while the clock is paused");
	}
	kani::cover!(present && ticking && ticks == tt && fraction == tf, "w:exactly-at-start-time");
	kani::cover!(present && !ticking && reached, "w:reached-but-paused");
	kani::cover!(!present, "w:clock-gone");
	std::mem::forget(clocks);
}

// @h prop=C03,C12 tier=quick kind=main
// @bounds WaitingToResume with a Delayed start: remaining delay symbolic (0..4 s, ns resolution), dt = 1/8 s
// @funcs PlaybackStateManager::update (WaitingToResume arm), StartTime::update
// @catches resuming before the delay has elapsed; never resuming; delay counted twice
#[kani::proof]
#[kani::unwind(3)]
#[kani::stub(Tween::value, kv_tween_value)]
#[kani::stub(<f32 as Tweenable>::interpolate, kv_interp32)]
fn c03_psm_waiting_on_delay() {
	let secs: u64 = kani::any();
	let nanos: u32 = kani::any();
	kani::assume(secs <= 3 && nanos < 1_000_000_000);
	let remaining = Duration::new(secs, nanos);
	let shape = kv_any_shape();
	let (d0, d1): (u8, u8) = (kani::any(), kani::any());
	let a = KvArenas::empty();
	let info = a.info();
	let mut psm = PlaybackStateManager { state: kv_state(3, StartTime::Delayed(remaining), d0), volume_fade: kv_fade(shape, d1) };
	let changed = psm.update(0.125, &info);
	let after = psm.playback_state();
	if remaining <= Duration::from_millis(125) {
		assert!(after == PlaybackState::Resuming && changed, "resumes in the update in which the delay runs out");
	} else {
		assert!(after == PlaybackState::WaitingToResume && !changed);
		match &psm.state { State::WaitingToResume { start_time: StartTime::Delayed(r), .. } => assert!(*r == remaining - Duration::from_millis(125)), _ => assert!(false) }
	}
	kani::cover!(remaining.is_zero(), "w:zero-delay");
	kani::cover!(remaining > Duration::from_secs(1), "w:long-delay");
}
