// @append src/effect/eq_filter.rs
// C13 / C14: EQ filter coefficients.
include!(concat!(env!("KV_HARNESS_DIR"), "/lib/libm.rs"));

fn kv_kind() -> EqFilterKind { let m: u8 = kani::any(); match m % 3 { 0 => EqFilterKind::Bell, 1 => EqFilterKind::LowShelf, _ => EqFilterKind::HighShelf } }

// @h prop=C13,C14 tier=quick kind=main timeout=600
// @bounds all three kinds; gain exactly 0 dB; any finite frequency, any finite q (clamped at MIN_Q), dt = 1/48000: the mixing coefficients are exactly (1, 0, 0)
// @funcs Coefficients::calculate
// @assume powf contract stub (pow(10,0) = 1), tan contract stub (finite, positive on the clamped range), sqrt exact
// @catches 0 dB gain not transparent (m0 != 1 or m1/m2 != 0) for some kind
#[kani::proof]
#[kani::unwind(2)]
#[kani::stub(f64::powf, kv_powf64)]
#[kani::stub(f64::tan, kv_tan64)]
fn c13_eq_zero_gain_is_identity() {
	let f: f64 = kani::any();
	let q: f64 = kani::any();
	kani::assume(f.is_finite() && q.is_finite());
	let c = Coefficients::calculate(kv_kind(), f, q, Decibels::IDENTITY, 1.0 / 48000.0);
	assert!(c.m0 == 1.0 && c.m1 == 0.0 && c.m2 == 0.0, "0 dB EQ gain: output = input");
	assert!(c.a1.is_finite() && c.a2.is_finite() && c.a3.is_finite() && c.a1 > 0.0 && c.a1 <= 1.0);
	kani::cover!(q < 0.0, "w:q-clamped");
	std::mem::forget(c);
}

// @h prop=C13,C01,C14 tier=quick kind=main timeout=600
// @bounds all three kinds; every finite gain in [-80, +40] dB incl. -60 dB and below; frequency 500 Hz, q 1, 48 kHz: all six coefficients are finite
// @funcs Coefficients::calculate
// @assume powf contract stub with 10^e >= 0.0099 for e >= -2 and <= 10.001 for e <= 1; tan contract stub
// @catches a gain law that collapses to A = 0 at low gains (e.g. going through Decibels::as_amplitude, which is exactly 0 at -60 dB): 1/(q A) = inf, inf*0 = NaN
#[kani::proof]
#[kani::unwind(2)]
#[kani::stub(f64::powf, kv_powf64)]
#[kani::stub(f32::powf, kv_powf32)]
#[kani::stub(f64::tan, kv_tan64)]
fn c13_eq_coefficients_finite_over_gain_range() {
	let g: f32 = kani::any();
	kani::assume(g >= -80.0 && g <= 40.0);
	let c = Coefficients::calculate(kv_kind(), 500.0, 1.0, Decibels(g), 1.0 / 48000.0);
	assert!(c.a1.is_finite() && c.a2.is_finite() && c.a3.is_finite() && c.m0.is_finite() && c.m1.is_finite() && c.m2.is_finite(), "finite coefficients over the documented gain range and its edges");
	kani::cover!(g <= -60.0, "w:at-or-below-silence");
	kani::cover!(g > 12.0, "w:boost");
}

// ---- the cited coefficient formulas (SvfLinearTrapOptimised2) ------------------------------------------
const KV_A_PLUS6: f64 = 1.4125375446227544;  // 10^(6/40)
const KV_A_MINUS6: f64 = 0.7079457843841379; // 10^(-6/40)
const KV_TAN_500_48K: f64 = 0.032736610412972586; // tan(pi * 500 / 48000)
fn kv_pow_table(_b: f64, e: f64) -> f64 { if e > 0.0 { KV_A_PLUS6 } else { KV_A_MINUS6 } }
fn kv_tan_table(_x: f64) -> f64 { KV_TAN_500_48K }
// f32 path (Decibels::as_amplitude), should an implementation go through it: 10^(+-6/20)
fn kv_pow_table32(_b: f32, e: f32) -> f32 { if e > 0.0 { 1.9952623 } else { 0.5011872 } }

fn kv_eq_formula_body(kind: EqFilterKind) {
	// q and gain are enumerated concretely (symbolic choices put ite-operands into 53-bit dividers: no answer in 600 s)
	for (q, boost) in [(0.5, true), (2.0, false), (1.0, true)] {
		let c = Coefficients::calculate(kind, 500.0, q, Decibels(if boost { 6.0 } else { -6.0 }), 1.0 / 48000.0);
		let a = if boost { KV_A_PLUS6 } else { KV_A_MINUS6 };
		let t = KV_TAN_500_48K;
		let (g, k, m0, m1, m2) = match kind {
			EqFilterKind::Bell => { let k = 1.0 / (q * a); (t, k, 1.0, k * (a * a - 1.0), 0.0) }
			EqFilterKind::LowShelf => { let k = 1.0 / q; (t / a.sqrt(), k, 1.0, k * (a - 1.0), a * a - 1.0) }
			EqFilterKind::HighShelf => { let k = 1.0 / q; (t * a.sqrt(), k, a * a, k * (1.0 - a) * a, 1.0 - a * a) }
		};
		let a1 = 1.0 / (1.0 + g * (g + k));
		let close = |x: f64, y: f64| (x - y).abs() <= 1e-6;
		assert!(close(c.a1, a1) && close(c.a2, g * a1) && close(c.a3, g * g * a1), "a1 = 1/(1 + g(g + k)), a2 = g a1, a3 = g a2");
		assert!(close(c.m0, m0) && close(c.m1, m1) && close(c.m2, m2), "mixing coefficients of the selected kind");
		std::mem::forget(c);
	}
	kani::cover!(true, "w:reached");
}

// @h prop=C14 tier=quick kind=main timeout=600
// @bounds bell filter at 500 Hz / 48 kHz for (q, gain) in {(1/2, +6 dB), (2, -6 dB), (1, +6 dB)}: the six coefficients compared (within 1e-6) with the formulas of the cited SvfLinearTrapOptimised2 design written out in the harness (concrete points: this pins the formulas, it does not quantify over parameters)
// @funcs Coefficients::calculate
// @assume powf and tan replaced by their native values at the arguments used (kv/validate_stubs.py)
// @catches a changed coefficient formula: k = 1/q instead of 1/(qA) for the bell, m1 of the wrong kind
#[kani::proof]
#[kani::unwind(5)]
#[kani::stub(f64::powf, kv_pow_table)]
#[kani::stub(f32::powf, kv_pow_table32)]
#[kani::stub(f64::tan, kv_tan_table)]
fn c14_eq_bell_coefficients_match_cited_formulas() { kv_eq_formula_body(EqFilterKind::Bell); }

// @h prop=C14 tier=quick kind=main timeout=600
// @bounds low shelf, as above
// @funcs Coefficients::calculate
// @catches shelf g scaled by A instead of sqrt(A); m1/m2 swapped with the high shelf's
#[kani::proof]
#[kani::unwind(5)]
#[kani::stub(f64::powf, kv_pow_table)]
#[kani::stub(f32::powf, kv_pow_table32)]
#[kani::stub(f64::tan, kv_tan_table)]
fn c14_eq_low_shelf_coefficients_match_cited_formulas() { kv_eq_formula_body(EqFilterKind::LowShelf); }

// @h prop=C14 tier=quick kind=main timeout=600
// @bounds high shelf, as above
// @funcs Coefficients::calculate
#[kani::proof]
#[kani::unwind(5)]
#[kani::stub(f64::powf, kv_pow_table)]
#[kani::stub(f32::powf, kv_pow_table32)]
#[kani::stub(f64::tan, kv_tan_table)]
fn c14_eq_high_shelf_coefficients_match_cited_formulas() { kv_eq_formula_body(EqFilterKind::HighShelf); }
