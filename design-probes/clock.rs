// sequentialised reader/writer interleaving on the real ClockShared + Clock::update_shared + ClockHandle::time
#[kani::proof]
#[kani::unwind(3)]
fn clock_time_read_never_torn_seq_baseline() {
	// no interleaving: reader after complete writer update sees exactly the clock's value
	let arena: atomic_arena::Arena<u8> = atomic_arena::Arena::new(1);
	let key = arena.controller().try_reserve().unwrap();
	let (mut clock, handle) = Clock::new(Value::Fixed(ClockSpeed::TicksPerSecond(1.0)), ClockId(key));
	let t0: u64 = kani::any(); let f0: f64 = kani::any();
	kani::assume(t0 < 1000 && f0 >= 0.0 && f0 < 1.0);
	clock.state = State::Started { ticks: t0, fractional_position: f0 };
	clock.update_shared();
	let r = handle.time();
	assert!(r.ticks == t0 && r.fraction == f0);
	std::mem::forget(clock); std::mem::forget(handle); std::mem::forget(arena);
}
