// @append src/sound/streaming/decoder/symphonia.rs
// @features symphonia
// C18, kira's own share of "streaming a file yields the same frames as loading it, from any start position and after
// any seek": the glue between the streaming Decoder trait and Symphonia. The SymphoniaDecoder is built directly
// (struct literal) around a scripted reader and codec (lib/symphonia_mock.rs), so no stub is involved and a
// counterexample replays natively as it is. What the DecodeScheduler does with the returned frames and seek positions
// is decided under C09 (c09_scheduler.rs).

include!(concat!(env!("KV_HARNESS_DIR"), "/lib/symphonia_mock.rs"));

fn kv_decoder(reader: *mut KvReader, codec: *mut KvCodec, sample_rate: u32, num_frames: usize, track_id: u32) -> SymphoniaDecoder {
	SymphoniaDecoder {
		format_reader: unsafe { Box::from_raw(reader) } as Box<dyn FormatReader>,
		decoder: unsafe { Box::from_raw(codec) } as Box<dyn symphonia::core::codecs::Decoder>,
		sample_rate,
		num_frames,
		track_id,
	}
}

// The scripted codec only hands out f32 buffers. CBMC does not see the enum variant as a constant once the buffer has
// come back through the `dyn Decoder` call and would explore all ten sample formats (out of memory); this stand-in
// for the dispatcher keeps the one real arm and turns the nine others into failures. The dispatcher itself and the
// conversion are decided on their own in c18_symphonia.rs. Native replays run the real dispatcher.
fn kv_dispatch_f32_only(buffer: &symphonia::core::audio::AudioBufferRef) -> Result<Vec<Frame>, FromFileError> {
	match buffer {
		symphonia::core::audio::AudioBufferRef::F32(b) => crate::sound::symphonia::load_frames_from_buffer(b),
		_ => panic!("the scripted codec produces f32 buffers only"),
	}
}

fn kv_same(f: &Frame, l: f32, r: f32) -> bool { f.left.to_bits() == l.to_bits() && f.right.to_bits() == r.to_bits() }

fn kv_decode_kth(second: bool) {
	let s: [f32; 4] = kani::any();
	let rate: u32 = kani::any();
	let nf: usize = kani::any();
	let mut r = KvReader::new(vec![], [KvStep::Packet(0), KvStep::Packet(1), KvStep::Eof, KvStep::Eof]);
	let mut c = KvCodec { params: KvCodecParameters::new(), bufs: std::mem::ManuallyDrop::new([kv_f32_buffer(true, &s[0..2]), kv_f32_buffer(true, &s[2..4])]), fail_on: None, decoded: 0, last_packet_ts: u64::MAX };
	if second { r.calls = 1; c.decoded = 1; } // the first packet has been consumed already
	let reader = Box::into_raw(Box::new(r));
	let codec = Box::into_raw(Box::new(c));
	let mut d = kv_decoder(reader, codec, rate, nf, 0);
	assert!(crate::sound::streaming::decoder::Decoder::sample_rate(&d) == rate);
	assert!(crate::sound::streaming::decoder::Decoder::num_frames(&d) == nf);
	let a = match crate::sound::streaming::decoder::Decoder::decode(&mut d) { Ok(a) => a, Err(_) => panic!("the packet decodes") };
	let k = if second { 1 } else { 0 };
	assert!(unsafe { (*reader).calls } == k + 1, "exactly one packet read per decode()");
	assert!(unsafe { (*codec).last_packet_ts } == k as u64 && unsafe { (*codec).decoded } == k + 1, "the packet just read is the one decoded, once");
	assert!(a.len() == 1 && kv_same(&a[0], s[2 * k], s[2 * k + 1]), "the chunk holds exactly that packet's frames");
	kani::cover!(s[0].to_bits() != s[2].to_bits(), "witness");
	std::mem::forget(a); std::mem::forget(d);
}

// @h prop=C18 tier=experimental kind=main timeout=900
// @note NOT decided: out of memory in CBMC's propositional reduction (14 GB and 45 GB). The decoded buffer comes back as AudioBufferRef = Cow<AudioBuffer<S>>; kira drops it at the end of decode(), and CBMC does not fold the niche-encoded Cow discriminant to "Borrowed", so it also explores freeing an owned AudioBuffer through a non-constant pointer
// @bounds ONE decode() call on a fresh stream of two one-frame stereo packets of ANY f32 samples; ANY container rate / length
// @funcs <SymphoniaDecoder as Decoder>::decode, load_frames_from_buffer::<f32>, SymphoniaDecoder::sample_rate, SymphoniaDecoder::num_frames
// @assume Symphonia's reader and codec are scripted mocks implementing its FormatReader / Decoder traits; load_frames_from_buffer_ref replaced by its f32 arm (the other nine arms fail the harness if reached)
// @catches decode() skipping or re-reading packets, decoding another packet than the one read, channels swapped, truncated or padded chunks; reported rate / length differing from the container's
#[kani::proof]
#[kani::unwind(4)]
#[kani::stub(crate::sound::symphonia::load_frames_from_buffer_ref, kv_dispatch_f32_only)]
fn c18_stream_decode_first_packet() { kv_decode_kth(false) }

// @h prop=C18 tier=experimental kind=main timeout=900
// @bounds ONE decode() call with the first packet already consumed (any position in a stream is "the next packet")
// @funcs <SymphoniaDecoder as Decoder>::decode
// @assume as above
// @catches as above, for a decoder that is not at the start
#[kani::proof]
#[kani::unwind(4)]
#[kani::stub(crate::sound::symphonia::load_frames_from_buffer_ref, kv_dispatch_f32_only)]
fn c18_stream_decode_second_packet() { kv_decode_kth(true) }

// @h prop=C18 tier=quick kind=main timeout=900
// @bounds ANY requested frame index (usize), ANY landing timestamp reported by the reader (u64 that fits usize), ANY track id; and a failing seek
// @funcs <SymphoniaDecoder as Decoder>::seek
// @assume as above
// @catches seek() reporting the requested index instead of where the reader actually landed (the scheduler would then mis-number every following frame); seeking another track or another timestamp; a seek error turned into a panic or a made-up position
#[kani::proof]
#[kani::unwind(6)]
fn c18_stream_seek_reports_actual_position() {
	let index: usize = kani::any();
	let lands: u64 = kani::any();
	let track: u32 = kani::any();
	let fails: bool = kani::any();
	let mut r = KvReader::new(vec![], [KvStep::Eof; KV_MAX_STEPS]);
	r.seek_lands_on = lands;
	r.seek_fails = fails;
	let reader = Box::into_raw(Box::new(r));
	let codec = Box::into_raw(Box::new(KvCodec { params: KvCodecParameters::new(), bufs: std::mem::ManuallyDrop::new([kv_f32_buffer(true, &[]), kv_f32_buffer(true, &[])]), fail_on: None, decoded: 0, last_packet_ts: u64::MAX }));
	let mut d = kv_decoder(reader, codec, 44100, 100, track);
	let got = crate::sound::streaming::decoder::Decoder::seek(&mut d, index);
	let (req, ts, tr) = unsafe { ((*reader).seek_requests, (*reader).last_seek_ts, (*reader).last_seek_track) };
	assert!(req == 1 && ts == index as u64 && tr == track, "one accurate seek to the requested frame of the decoder's own track");
	match got {
		Ok(p) => { assert!(!fails, "a failed seek is an error value"); assert!(p as u64 == lands, "the position the reader actually landed on"); }
		Err(e) => { assert!(fails); std::mem::forget(e); }
	}
	kani::cover!(!fails && lands != index as u64, "witness");
	std::mem::forget(d);
}

