// @append src/effect/compressor.rs
// C13 / C14: compressor: silence, and signals below the threshold, from a zero envelope.
include!(concat!(env!("KV_HARNESS_DIR"), "/lib/libm.rs"));
use crate::Value;
use atomic_arena::Arena;

fn kv_compressor(mix: f32) -> Compressor {
	let (w, r) = command_writers_and_readers();
	std::mem::forget(w);
	let mut c = Compressor::new(CompressorBuilder::new(), r);
	c.mix = Parameter::new(Value::Fixed(Mix(mix)), Mix(1.0));
	c
}

// @h prop=C13,C14 tier=quick kind=main timeout=600
// @bounds default compressor (threshold/ratio/attack/release defaults, makeup 0 dB), zero envelope; fully wet or fully dry (symbolic); one frame: silence, or any finite level whose log10-level is at or below the threshold
// @funcs Compressor::process
// @assume contract stubs: log10 (log10(0) = -inf, monotone), exp (in [0,1] for arguments <= 0), powf (pow(10,0) = 1)
// @catches a signal below the threshold being changed; silence producing NaN (log10(0) = -inf through the envelope follower); dry path altered
#[kani::proof]
#[kani::unwind(4)]
#[kani::stub(f32::log10, kv_log10f32)]
#[kani::stub(f64::exp, kv_exp64)]
#[kani::stub(f32::powf, kv_powf32)]
fn c13_compressor_below_threshold_is_transparent() {
	let wet: bool = kani::any();
	let x: f32 = kani::any();
	kani::assume(x.is_finite() && x.abs() <= 1.0);
	let mut fx = kv_compressor(if wet { 1.0 } else { 0.0 });
	let threshold = fx.threshold.value() as f32;
	// the harness's own view of the level (same memoised log10): below or at the threshold
	let level = 20.0 * x.abs().log10();
	kani::assume(level <= threshold);
	let c: Arena<crate::clock::Clock> = Arena::new(0);
	let m: Arena<Box<dyn crate::modulator::Modulator>> = Arena::new(0);
	let l: Arena<crate::listener::Listener> = Arena::new(0);
	let info = Info::new(&c, &m, &l, None);
	let mut buf = [Frame::from_mono(x)];
	fx.process(&mut buf, 1.0 / 48000.0, &info);
	assert!(buf[0].left == x && buf[0].right == x, "a signal below the threshold (and silence) passes unchanged, wet or dry");
	assert!(fx.envelope_follower[0] == 0.0 && fx.envelope_follower[1] == 0.0, "and leaves the envelope at rest");
	kani::cover!(x == 0.0 && wet, "w:silence-wet");
	kani::cover!(x != 0.0 && wet, "w:quiet-signal-wet");
	std::mem::forget(fx); std::mem::forget(c); std::mem::forget(m); std::mem::forget(l);
}
