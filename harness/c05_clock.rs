// @append src/clock.rs
// @requires kv_param_peek.rs
// @requires kv_clock_force.rs
// @requires kv_storage_place.rs
// C05: clocks keep exact audio time (one update step from ANY clock state), publication to the
// handle, start-time resolution, and the reader/writer interleavings of the two-word time.
include!(concat!(env!("KV_HARNESS_DIR"), "/lib/libm.rs"));

use crate::info::WhenToStart;
use crate::listener::Listener;
use crate::modulator::Modulator;
use crate::{Easing, StartTime, Tween, Tweenable};
use atomic_arena::Arena;
use std::time::Duration;

struct KvArenas(Arena<Clock>, Arena<Box<dyn Modulator>>, Arena<Listener>);
impl KvArenas {
	fn empty() -> Self { KvArenas(Arena::new(0), Arena::new(0), Arena::new(0)) }
	fn info(&self) -> Info<'_> { Info::new(&self.0, &self.1, &self.2, None) }
}

fn kv_key() -> Key {
	let arena: Arena<u8> = Arena::new(1);
	let k = arena.controller().try_reserve().unwrap();
	std::mem::forget(arena);
	k
}

fn kv_speed(sel: u8) -> f64 { match sel % 4 { 0 => 0.5, 1 => 1.0, 2 => 2.0, _ => 4.0 } }

// @h prop=C05 tier=quick kind=main
// @bounds one Clock::update from ANY state: NotStarted or Started{ticks <= 2^40, fraction in [0,1)}, ticking or paused; speed fixed at 1/2, 1, 2 or 4 ticks/s; dt symbolic with speed*dt <= 4 (all f64 bit patterns in range)
// @funcs Clock::update, Parameter::<ClockSpeed>::update, ClockSpeed::as_ticks_per_second
// @catches time lost or invented at the tick carry; a paused clock advancing; first tick (0) not reported; tick count returned wrong
#[kani::proof]
#[kani::unwind(7)]
fn c05_clock_update_advances_by_speed_times_dt() {
	let a = KvArenas::empty();
	let info = a.info();
	let sel: u8 = kani::any();
	let s = kv_speed(sel);
	let (mut clock, _h) = Clock::new(Value::Fixed(ClockSpeed::TicksPerSecond(s)), ClockId(kv_key()));
	let ticking: bool = kani::any();
	let started: bool = kani::any();
	let ticks: u64 = kani::any();
	let fraction: f64 = kani::any();
	kani::assume(ticks <= (1 << 40) && fraction >= 0.0 && fraction < 1.0);
	if started { clock.kv_force(ticking, ticks, fraction); } else { clock.kv_force_not_started(ticking); }
	let dt: f64 = kani::any();
	kani::assume(dt > 0.0 && s * dt <= 4.0);
	let r = clock.update(dt, &info);
	if !ticking {
		assert!(r.is_none());
		assert!(clock.state == if started { State::Started { ticks, fractional_position: fraction } } else { State::NotStarted }, "pausing freezes the clock");
	} else {
		let (t0, f0) = if started { (ticks, fraction) } else { (0, 0.0) };
		let total = f0 + s * dt;
		let k = total.trunc();
		match clock.state {
			State::Started { ticks: t1, fractional_position: f1 } => {
				assert!(t1 == t0 + k as u64, "advances by exactly floor(fraction + speed*dt) whole ticks");
				assert!(f1 == total - k && f1 >= 0.0 && f1 < 1.0, "and keeps the exact remainder as its fraction");
				if k >= 1.0 { assert!(r == Some(t1)); } else if !started { assert!(r == Some(0)); } else { assert!(r.is_none()); }
			}
			State::NotStarted => assert!(false, "a ticking clock has started"),
		}
	}
	kani::cover!(ticking && started && s * dt >= 2.0, "w:several-ticks-in-one-update");
	kani::cover!(ticking && !started, "w:first-update");
	kani::cover!(!ticking && started, "w:paused");
	std::mem::forget(clock); std::mem::forget(_h);
}

// @h prop=C05 tier=thorough kind=main timeout=1750
// @bounds two updates d1, d2 vs one update d1+d2 on the 1/1024 s grid (d <= 1/2 s each), speed 1/2, 1, 2 or 4, start state on the 1/1024 tick grid: identical resulting time
// @funcs Clock::update
// @catches clock time depending on how elapsed audio time is split into chunks / callbacks
#[kani::proof]
#[kani::unwind(7)]
fn c05_clock_update_is_partition_independent() {
	let a = KvArenas::empty();
	let info = a.info();
	let sel: u8 = kani::any();
	let s = kv_speed(sel);
	let ticks: u64 = kani::any();
	let (k0, k1, k2): (u16, u16, u16) = (kani::any(), kani::any(), kani::any());
	kani::assume(ticks <= (1 << 40) && k0 < 1024 && k1 >= 1 && k2 >= 1 && k1 <= 512 && k2 <= 512);
	let (f, d1, d2) = (k0 as f64 / 1024.0, k1 as f64 / 1024.0, k2 as f64 / 1024.0);
	let (mut c1, _h1) = Clock::new(Value::Fixed(ClockSpeed::TicksPerSecond(s)), ClockId(kv_key()));
	let (mut c2, _h2) = Clock::new(Value::Fixed(ClockSpeed::TicksPerSecond(s)), ClockId(kv_key()));
	c1.kv_force(true, ticks, f);
	c2.kv_force(true, ticks, f);
	c1.update(d1, &info);
	c1.update(d2, &info);
	c2.update(d1 + d2, &info);
	assert!(c1.state == c2.state, "a clock advances by speed x elapsed time regardless of how that time is split");
	kani::cover!(matches!(c1.state, State::Started { ticks: t, .. } if t > ticks + 2), "w:several-ticks");
	std::mem::forget(c1); std::mem::forget(c2); std::mem::forget(_h1); std::mem::forget(_h2);
}

// @h prop=C05 tier=quick kind=main
// @bounds a speed tween (250 ms, immediate or delayed 1 s) pending on a clock that is NOT ticking (paused, stopped, never started): one update of 1/8 s
// @funcs Clock::update, Parameter::<ClockSpeed>::update
// @catches a speed change or its start delay being frozen while the clock is paused (it is defined in audio time, not clock time)
#[kani::proof]
#[kani::unwind(4)]
#[kani::stub(<f64 as Tweenable>::interpolate, kv_interp64)]
fn c05_speed_tween_progresses_while_clock_is_paused() {
	let a = KvArenas::empty();
	let info = a.info();
	let (mut clock, _h) = Clock::new(Value::Fixed(ClockSpeed::TicksPerSecond(1.0)), ClockId(kv_key()));
	let started: bool = kani::any();
	if started { clock.kv_force(false, 3, 0.5); } else { clock.kv_force_not_started(false); }
	let delayed: bool = kani::any();
	let tw = Tween { start_time: if delayed { StartTime::Delayed(Duration::from_secs(1)) } else { StartTime::Immediate }, duration: Duration::from_millis(250), easing: Easing::Linear };
	clock.speed.set(Value::Fixed(ClockSpeed::TicksPerSecond(3.0)), tw);
	let before = clock.state;
	clock.update(0.125, &info);
	assert!(clock.state == before, "a paused clock does not advance");
	if delayed {
		assert!(clock.speed.kv_delay_remaining() == Some(Duration::from_millis(875)), "the start delay of a speed change counts down in audio time");
	} else {
		assert!(clock.speed.kv_tween_time() == Some(0.125), "a speed tween progresses in audio time even while the clock is paused");
	}
	kani::cover!(started && !delayed, "w:paused-mid-run");
	kani::cover!(!started && delayed, "w:never-started");
	std::mem::forget(clock); std::mem::forget(_h);
}

// @h prop=C05,C07 tier=quick kind=main memsafe=on
// @bounds real Clock + ClockHandle; commands start/pause/stop written in any order of up to 2 (symbolic choice), one on_start_processing; clock state symbolic
// @funcs Clock::on_start_processing, Clock::set_ticking, Clock::reset, Clock::update_shared, ClockHandle::{start,pause,stop,time,ticking}, ClockShared::*
// @catches stop not resetting to zero; handle-visible time/ticking not matching the clock after the callback; stop();start() in one interval leaving the clock stopped
#[kani::proof]
#[kani::unwind(4)]
fn c05_clock_commands_and_publication() {
	let (mut clock, mut h) = Clock::new(Value::Fixed(ClockSpeed::TicksPerSecond(1.0)), ClockId(kv_key()));
	let ticks: u64 = kani::any();
	let fraction: f64 = kani::any();
	kani::assume(ticks <= (1 << 40) && fraction >= 0.0 && fraction < 1.0);
	let was_ticking: bool = kani::any();
	clock.kv_force(was_ticking, ticks, fraction);
	let (c1, c2): (u8, u8) = (kani::any(), kani::any());
	kani::assume(c1 < 4 && c2 < 4);
	let mut want_ticking = was_ticking;
	let mut want_reset = false;
	for c in [c1, c2] {
		match c { 0 => {} 1 => { h.start(); want_ticking = true; } 2 => { h.pause(); want_ticking = false; } _ => { h.stop(); want_ticking = false; want_reset = true; } }
	}
	if want_reset { assert!(h.time().ticks == 0 && h.time().fraction == 0.0, "a read right after stop() sees zero"); }
	clock.on_start_processing();
	assert!(clock.ticking == want_ticking && h.ticking() == want_ticking, "the last start/pause/stop of the interval decides whether the clock runs");
	if want_reset {
		assert!(clock.state == State::NotStarted, "stopping resets the clock to zero");
		assert!(h.time().ticks == 0 && h.time().fraction == 0.0);
	} else {
		assert!(clock.state == State::Started { ticks, fractional_position: fraction });
		assert!(h.time().ticks == ticks && h.time().fraction == fraction, "the handle shows exactly the clock's time after the callback");
	}
	kani::cover!(c1 == 3 && c2 == 1, "w:stop-then-start-in-one-interval");
	kani::cover!(c1 == 1 && c2 == 3, "w:start-then-stop");
	std::mem::forget(clock); std::mem::forget(h);
}

// @h prop=C05,C08 tier=quick kind=main
// @bounds Info::when_to_start over a real Arena<Clock> of capacity 1: clock present / absent / REPLACED by a newer clock in the same slot (stale id); ticking or not; clock time and target symbolic (ticks <= 2^40, fractions in [0,1))
// @funcs Info::when_to_start, Info::clock_info, <ClockTime as PartialOrd>::partial_cmp, Arena::get
// @catches `>=` -> `>` at the exact start time; starting while the clock is paused; a stale clock id resolving to the clock that reuses its slot
#[kani::proof]
#[kani::unwind(3)]
fn c05_when_to_start_resolution() {
	let mut arena: Arena<Clock> = Arena::new(1);
	let ctrl = arena.controller();
	let key = ctrl.try_reserve().unwrap();
	let id = ClockId(key);
	let mode: u8 = kani::any();
	kani::assume(mode < 3);
	let ticking: bool = kani::any();
	let (ticks, tt): (u64, u64) = (kani::any(), kani::any());
	let (fraction, tf): (f64, f64) = (kani::any(), kani::any());
	kani::assume(ticks <= (1 << 40) && tt <= (1 << 40) && fraction >= 0.0 && fraction < 1.0 && tf >= 0.0 && tf < 1.0);
	let mut clock = Clock::without_handle(Value::Fixed(ClockSpeed::TicksPerSecond(1.0)));
	clock.kv_force(ticking, ticks, fraction);
	match mode {
		0 => { arena.insert_with_key(key, clock).unwrap(); }
		1 => { std::mem::forget(clock); }
		_ => {
			// the slot is reused by a newer clock: the old id must not resolve to it
			arena.insert_with_key(key, Clock::default()).unwrap();
			let old = arena.remove(key).unwrap();
			std::mem::forget(old);
			let key2 = ctrl.try_reserve().unwrap();
			assert!(key2 != key);
			arena.insert_with_key(key2, clock).unwrap();
		}
	}
	let m: Arena<Box<dyn Modulator>> = Arena::new(0);
	let l: Arena<Listener> = Arena::new(0);
	let info = Info::new(&arena, &m, &l, None);
	let w = info.when_to_start(ClockTime { clock: id, ticks: tt, fraction: tf });
	let reached = ticks > tt || (ticks == tt && fraction >= tf);
	if mode != 0 {
		assert!(w == WhenToStart::Never, "an id whose clock is gone (even if its slot was reused) never starts anything");
	} else if ticking && reached {
		assert!(w == WhenToStart::Now);
	} else {
		assert!(w == WhenToStart::Later, "not before the clock reaches the time, and never while it is paused");
	}
	kani::cover!(mode == 0 && ticking && ticks == tt && fraction == tf, "w:exactly-on-time");
	kani::cover!(mode == 2, "w:stale-id");
	std::mem::forget(arena); std::mem::forget(m); std::mem::forget(l);
}

// ---- reader / writer interleavings of the two-word time ------------------------------------------
// The handle reads ticks and fraction from two atomics; the audio thread stores them one after the
// other. With the cfg(kira_verif) yield points the OTHER side's whole step runs between the two
// words. For 2 x 2 accesses this generates every outcome an SC interleaving can produce.
static mut KV_CLOCK: *mut Clock = std::ptr::null_mut();
static mut KV_HANDLE: *const ClockHandle = std::ptr::null();
static mut KV_NEXT: (u64, f64) = (0, 0.0);
static mut KV_SEEN: Option<(u64, f64)> = None;
static mut KV_ARMED: bool = false;

fn kv_hook(id: u32) {
	unsafe {
		if !KV_ARMED { return; }
		KV_ARMED = false; // once
		if id == crate::verif_hooks::CLOCK_READ_BETWEEN_WORDS {
			// the audio thread publishes its next time while the reader sits between the two words
			(*KV_CLOCK).kv_force(true, KV_NEXT.0, KV_NEXT.1);
			(*KV_CLOCK).update_shared();
		} else if id == crate::verif_hooks::CLOCK_WRITE_BETWEEN_WORDS {
			// a reader runs completely while the writer sits between its two stores
			let t = (*KV_HANDLE).time();
			KV_SEEN = Some((t.ticks, t.fraction));
		}
	}
}

// @h prop=C05 tier=quick kind=finding:F10
// @bounds the clock moves from (t0,f0) to a later (t1,f1) (both symbolic, ticks <= 2^40, fractions in [0,1)); either the whole publication runs between the handle's two loads, or a whole read runs between the audio thread's two stores
// @funcs ClockHandle::time, ClockShared::{ticks,fractional_position}, Clock::update_shared
// @assume sequentially consistent atomics (all accesses are SeqCst in the source); interleavings at whole-step granularity via the cfg(kira_verif) yield points
// @catches (finding F10) the handle showing a time the clock never had / going backwards: ticks of one publication combined with the fraction of another
#[kani::proof]
#[kani::unwind(3)]
#[kani::stub(crate::verif_hooks::kani_yield, kv_hook)]
fn c05_handle_time_is_never_torn() {
	let (mut clock, h) = Clock::new(Value::Fixed(ClockSpeed::TicksPerSecond(1.0)), ClockId(kv_key()));
	let (t0, t1): (u64, u64) = (kani::any(), kani::any());
	let (f0, f1): (f64, f64) = (kani::any(), kani::any());
	kani::assume(t0 <= (1 << 40) && t1 <= (1 << 40) && f0 >= 0.0 && f0 < 1.0 && f1 >= 0.0 && f1 < 1.0);
	kani::assume(t1 > t0 || (t1 == t0 && f1 >= f0)); // the clock runs forwards
	clock.kv_force(true, t0, f0);
	clock.update_shared();
	let reader_preempted: bool = kani::any();
	unsafe {
		KV_CLOCK = &mut clock; KV_HANDLE = &h; KV_NEXT = (t1, f1); KV_SEEN = None; KV_ARMED = true;
		crate::verif_hooks::set_hook(Some(kv_hook));
	}
	let seen = if reader_preempted {
		let t = h.time();
		(t.ticks, t.fraction)
	} else {
		clock.kv_force(true, t1, f1);
		clock.update_shared();
		unsafe { KV_SEEN.unwrap() }
	};
	unsafe { crate::verif_hooks::set_hook(None); }
	let is_old = seen.0 == t0 && seen.1 == f0;
	let is_new = seen.0 == t1 && seen.1 == f1;
	assert!(is_old || is_new, "the time read from a handle is a time the clock actually had");
	kani::cover!(reader_preempted, "w:reader-preempted");
	kani::cover!(!reader_preempted, "w:writer-preempted");
	std::mem::forget(clock); std::mem::forget(h);
}

// @h prop=C01 tier=quick kind=finding:F5 timeout=600
// @bounds a running clock at an absurd but finite speed (1e18 ticks/s), one update of 1/4 s: the tick loop `while tick_timer >= 1.0` must terminate within 8 iterations
// @funcs Clock::update
// @catches (finding F5) the audio callback not returning for a huge clock speed
#[kani::proof]
#[kani::unwind(9)]
fn c01_find_clock_huge_speed_loop_unbounded() {
	let a = KvArenas::empty();
	let info = a.info();
	let (mut clock, _h) = Clock::new(Value::Fixed(ClockSpeed::TicksPerSecond(1.0e18)), ClockId(kv_key()));
	clock.kv_force(true, 0, 0.0);
	clock.update(0.25, &info);
	kani::cover!(true, "w:returned");
	std::mem::forget(clock); std::mem::forget(_h);
}

// @h prop=C05 tier=quick kind=finding:F9 timeout=600
// @bounds real Clocks storage (capacity 1) with one running clock at tick 5; a zero-length speed change scheduled on the clock's OWN time (tick 2, already reached); the speed parameter updated as Clocks::update does it (inside SelfReferentialResourceStorage::for_each, with the other clocks as Info)
// @funcs SelfReferentialResourceStorage::for_each, Parameter::<ClockSpeed>::update_tween, Info::when_to_start
// @catches (finding F9) a speed change scheduled on the clock's own time never taking effect: while a clock is updated it is swapped out of the arena for a dummy, so its own id resolves to a clock that is not ticking
// @requires kv_storage_place.rs
#[kani::proof]
#[kani::unwind(40)]
fn c05_find_speed_change_on_own_clock_time_never_starts() {
	use crate::backend::resources::{clocks::Clocks, listeners::Listeners, modulators::Modulators};
	let (mut clocks, cc) = Clocks::new(1);
	let (modulators, mc) = Modulators::new(0);
	let (listeners, lc) = Listeners::new(0);
	std::mem::forget(cc); std::mem::forget(mc); std::mem::forget(lc);
	let key = clocks.0.resources.controller().try_reserve().unwrap();
	let id = ClockId(key);
	let mut clock = Clock::without_handle(Value::Fixed(ClockSpeed::TicksPerSecond(1.0)));
	clock.kv_force(true, 5, 0.0);
	clock.speed.set(Value::Fixed(ClockSpeed::TicksPerSecond(10.0)), Tween { start_time: StartTime::ClockTime(ClockTime { clock: id, ticks: 2, fraction: 0.0 }), duration: Duration::ZERO, easing: Easing::Linear });
	let r = clocks.0.resources.insert_with_key(key, clock);
	std::mem::forget(r);
	clocks.0.kv_push_key(key);
	// exactly what Clocks::update does, minus the tick loop (Clock::update's first statement is speed.update)
	clocks.0.for_each(|clock, others| {
		let info = Info::new(others, &modulators.0.resources, &listeners.0.resources, None);
		clock.speed.update(0.25, &info);
	});
	let c = clocks.0.resources.get(key).unwrap();
	assert!(c.speed.value() == ClockSpeed::TicksPerSecond(10.0), "a speed change scheduled on the clock's own time takes effect when it is due");
	kani::cover!(true, "w:reached");
	std::mem::forget(clocks); std::mem::forget(modulators); std::mem::forget(listeners);
}
