#!/bin/bash
# usage: seedcheck.sh <patch.diff> <PROPERTY> [extra check args]  -- applies the seeded change to /repo, runs the quick
# check, undoes the change straight afterwards. Prints the tail of the check output and its exit code.
P=$1; PROP=$2; shift 2
cd /repo && git diff --quiet || { echo "/repo has uncommitted changes"; exit 3; }
git -C /repo apply "$P" || exit 3
cd /verif && KV_EVIDENCE_DIR=/tmp/kw/seed_evidence ./check "$PROP" "${TIER:-quick}" "$@" > /tmp/kw/seedcheck.out 2>&1
rc=$?
git -C /repo checkout -- .
grep -E "VIOLATION|INCONCLUSIVE|KNOWN-FINDING|^  harness|^C[0-9]+ " /tmp/kw/seedcheck.out | cut -c1-400
echo "exit=$rc"
