// @append src/sound/symphonia.rs
// @features symphonia
// C18 (kira's own share of "decoding is faithful"): the conversion of a decoded Symphonia audio buffer into
// kira frames. The buffer is built with Symphonia's real AudioBuffer type; its samples are symbolic.
// What Symphonia's parsers and codecs put INTO such a buffer is outside the claim (see DESIGN, C18).

use symphonia::core::audio::{Channels, SignalSpec};

fn kv_buf<S: Sample>(channels: Channels, cap: u64, n: usize) -> AudioBuffer<S> {
	let mut b = AudioBuffer::<S>::new(cap, SignalSpec::new(44100, channels));
	b.render_reserved(Some(n));
	b
}

// @h prop=C18 tier=quick kind=main
// @bounds mono buffer of capacity 4 holding 3 written frames (the 4th slot is unwritten) of ANY i16 samples
// @funcs load_frames_from_buffer::<i16>, load_frames_from_buffer_ref, Frame::from_mono
// @catches mono not duplicated to both channels; frame count differing from the buffer's; samples reordered, dropped, scaled or taken from the unwritten part of the buffer; S16 dispatched to another variant
#[kani::proof]
#[kani::unwind(5)]
fn c18_convert_mono_s16() {
	let n: usize = 3; // concrete: a Vec collected from a symbolic-length slice runs CBMC out of memory
	let mut b = kv_buf::<i16>(Channels::FRONT_LEFT, 4, n);
	let s: [i16; 3] = kani::any();
	for i in 0..n { b.chan_mut(0)[i] = s[i]; }
	let r = load_frames_from_buffer_ref(&AudioBufferRef::S16(std::borrow::Cow::Borrowed(&b)));
	let f = match r { Ok(f) => f, Err(_) => panic!("mono is a supported configuration") };
	assert!(f.len() == n, "one frame per decoded sample");
	for i in 0..n {
		let want = s[i] as f32 / 32768.0;
		assert!(f[i].left == want && f[i].right == want, "mono sample duplicated to both channels, scaled to [-1, 1)");
	}
	kani::cover!(n == 3 && s[2] == i16::MIN, "witness");
	std::mem::forget(f);
	std::mem::forget(b);
}

// @h prop=C18 tier=quick kind=main
// @bounds stereo buffer of capacity 4 holding 3 written frames of ANY i16 samples
// @funcs load_frames_from_buffer::<i16>, load_frames_from_buffer_ref
// @catches channels swapped; right channel taken from the left; frames zipped with an offset
#[kani::proof]
#[kani::unwind(5)]
fn c18_convert_stereo_s16() {
	let n: usize = 3;
	let mut b = kv_buf::<i16>(Channels::FRONT_LEFT | Channels::FRONT_RIGHT, 4, n);
	let l: [i16; 3] = kani::any();
	let r: [i16; 3] = kani::any();
	for i in 0..n { b.chan_mut(0)[i] = l[i]; b.chan_mut(1)[i] = r[i]; }
	let f = match load_frames_from_buffer_ref(&AudioBufferRef::S16(std::borrow::Cow::Borrowed(&b))) {
		Ok(f) => f,
		Err(_) => panic!("stereo is a supported configuration"),
	};
	assert!(f.len() == n);
	for i in 0..n {
		assert!(f[i].left == l[i] as f32 / 32768.0, "left from channel 0");
		assert!(f[i].right == r[i] as f32 / 32768.0, "right from channel 1");
	}
	kani::cover!(n == 3 && l[0] != r[0], "witness");
	std::mem::forget(f);
	std::mem::forget(b);
}

fn kv_f32_identity(stereo: bool) {
	let n: usize = 2;
	let ch = if stereo { Channels::FRONT_LEFT | Channels::FRONT_RIGHT } else { Channels::FRONT_LEFT };
	let mut b = kv_buf::<f32>(ch, 3, n);
	let l: [f32; 2] = kani::any();
	let r: [f32; 2] = kani::any();
	for i in 0..n { b.chan_mut(0)[i] = l[i]; if stereo { b.chan_mut(1)[i] = r[i]; } }
	let f = match load_frames_from_buffer(&b) { Ok(f) => f, Err(_) => panic!("supported") };
	assert!(f.len() == n);
	for i in 0..n {
		assert!(f[i].left.to_bits() == l[i].to_bits(), "float samples pass through bit-identical");
		assert!(f[i].right.to_bits() == if stereo { r[i].to_bits() } else { l[i].to_bits() });
	}
	kani::cover!(l[1].is_nan(), "witness");
	std::mem::forget(f);
	std::mem::forget(b);
}

// @h prop=C18 tier=quick kind=main
// @bounds f32 mono buffer of capacity 3 holding 2 written frames, ANY f32 bit patterns
// @funcs load_frames_from_buffer::<f32>
// @catches float samples altered on the way (must be bit-identical); mono not duplicated
#[kani::proof]
#[kani::unwind(4)]
fn c18_convert_f32_mono_identity() { kv_f32_identity(false) }

// @h prop=C18 tier=quick kind=main
// @bounds f32 stereo buffer of capacity 3 holding 2 written frames, ANY f32 bit patterns
// @funcs load_frames_from_buffer::<f32>
// @catches float samples altered on the way; channels swapped
#[kani::proof]
#[kani::unwind(4)]
fn c18_convert_f32_stereo_identity() { kv_f32_identity(true) }

// @h prop=C18 tier=quick kind=main
// @bounds buffers with 3 channels and with every channel of the mask (capacity 2, 2 frames)
// @funcs load_frames_from_buffer::<u8>
// @catches a multichannel stream accepted (panic in chan(), or invented frames) instead of Err(UnsupportedChannelConfiguration)
#[kani::proof]
#[kani::unwind(4)]
fn c18_convert_unsupported_channel_count_is_error() {
	let n: usize = 2;
	let three: bool = true;
	let ch = if three { Channels::FRONT_LEFT | Channels::FRONT_RIGHT | Channels::FRONT_CENTRE } else { Channels::all() };
	let b = kv_buf::<u8>(ch, 2, n);
	let r = load_frames_from_buffer(&b);
	assert!(matches!(r, Err(FromFileError::UnsupportedChannelConfiguration)), "neither panic nor invented samples");
	kani::cover!(three && n == 2, "witness");
	std::mem::forget(r);
	std::mem::forget(b);
}

// @h prop=C18 tier=thorough kind=main timeout=1700
// @bounds u8 mono buffer (capacity 3, 2 written frames) through the dispatcher, ANY u8 samples
// @funcs load_frames_from_buffer_ref, load_frames_from_buffer::<u8>
// @catches unsigned 8-bit samples not centred on 128 / not scaled to [-1, 1); mono not duplicated
#[kani::proof]
#[kani::unwind(4)]
fn c18_convert_mono_u8_via_dispatcher() {
	let mut b = kv_buf::<u8>(Channels::FRONT_LEFT, 3, 2);
	let s: [u8; 2] = kani::any();
	for i in 0..2 { b.chan_mut(0)[i] = s[i]; }
	let f = match load_frames_from_buffer_ref(&AudioBufferRef::U8(std::borrow::Cow::Borrowed(&b))) { Ok(f) => f, Err(_) => panic!("supported") };
	assert!(f.len() == 2);
	for i in 0..2 {
		let want = (s[i] as f32 - 128.0) / 128.0;
		assert!(f[i].left == want && f[i].right == want, "u8 128 is silence, 0 is -1.0");
	}
	kani::cover!(s[0] == 0 && s[1] == 255, "witness");
	std::mem::forget(f);
	std::mem::forget(b);
}

// @h prop=C18 tier=thorough kind=main timeout=1700
// @bounds f64 stereo buffer (capacity 3, 2 written frames) through the dispatcher, ANY finite f64 samples
// @funcs load_frames_from_buffer_ref, load_frames_from_buffer::<f64>
// @catches channels swapped; 64-bit samples not rounded to the nearest f32
#[kani::proof]
#[kani::unwind(4)]
fn c18_convert_stereo_f64_via_dispatcher() {
	let mut b = kv_buf::<f64>(Channels::FRONT_LEFT | Channels::FRONT_RIGHT, 3, 2);
	let l: [f64; 2] = kani::any();
	let r: [f64; 2] = kani::any();
	kani::assume(l[0].is_finite() && l[1].is_finite() && r[0].is_finite() && r[1].is_finite());
	for i in 0..2 { b.chan_mut(0)[i] = l[i]; b.chan_mut(1)[i] = r[i]; }
	let f = match load_frames_from_buffer_ref(&AudioBufferRef::F64(std::borrow::Cow::Borrowed(&b))) { Ok(f) => f, Err(_) => panic!("supported") };
	assert!(f.len() == 2);
	for i in 0..2 {
		assert!(f[i].left.to_bits() == (l[i] as f32).to_bits() && f[i].right.to_bits() == (r[i] as f32).to_bits());
	}
	kani::cover!(l[0] != r[0], "witness");
	std::mem::forget(f);
	std::mem::forget(b);
}
