// @append src/parameter.rs
// helper (no harness): read-only view of a Parameter's tween state for harnesses in other modules
impl<T: Tweenable> Parameter<T> {
	/// Some(target) while tweening towards a fixed target
	pub(crate) fn kv_fixed_tween_target(&self) -> Option<T> {
		match &self.state { State::Tweening { target: Value::Fixed(t), .. } => Some(*t), _ => None }
	}
	pub(crate) fn kv_is_tweening(&self) -> bool { matches!(self.state, State::Tweening { .. }) }
	pub(crate) fn kv_tween_time(&self) -> Option<f64> {
		match &self.state { State::Tweening { time, .. } => Some(*time), _ => None }
	}
	pub(crate) fn kv_is_stagnant(&self) -> bool { self.stagnant }
	pub(crate) fn kv_delay_remaining(&self) -> Option<Duration> {
		match &self.state { State::Tweening { tween: Tween { start_time: StartTime::Delayed(r), .. }, .. } => Some(*r), _ => None }
	}
}
