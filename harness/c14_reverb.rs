// @append src/effect/reverb.rs
// C14 / C16: the Freeverb network's tuning and its re-sizing with the sample rate.
use crate::Value;

fn kv_reverb() -> Reverb {
	let (w, r) = command_writers_and_readers();
	std::mem::forget(w);
	Reverb::new(ReverbBuilder::new(), r)
}
fn kv_lens(rv: &Reverb) -> ([(usize, usize); 8], [(usize, usize); 4]) {
	match &rv.state {
		ReverbState::Initialized { comb_filters, all_pass_filters } => {
			let mut c = [(0, 0); 8];
			let mut a = [(0, 0); 4];
			let mut i = 0;
			while i < 8 { c[i] = (comb_filters[i].0.kv_len(), comb_filters[i].1.kv_len()); i += 1; }
			i = 0;
			while i < 4 { a[i] = (all_pass_filters[i].0.kv_len(), all_pass_filters[i].1.kv_len()); i += 1; }
			(c, a)
		}
		ReverbState::Uninitialized => panic!("not initialised"),
	}
}

// @h prop=C14,C16 tier=quick kind=main timeout=600
// @bounds Reverb::init at 44100 Hz, then on_change_sample_rate to 48000 Hz and to 22050 Hz: the 8 comb and 4 all-pass line lengths per channel
// @funcs Reverb::{new,init,on_change_sample_rate,init_filters}, CombFilter::new, AllPassFilter::new
// @catches Freeverb tuning constants changed, stereo spread not 23, 8+4 topology changed, line lengths not scaled by sample_rate/44100 (or not re-sized on a rate change)
// @requires kv_reverb_units_peek.rs
// @requires kv_reverb_allpass_peek.rs
#[kani::proof]
#[kani::unwind(10)]
fn c14_reverb_tuning_and_rate_scaling() {
	let mut rv = kv_reverb();
	rv.init(44100, 4);
	let (c, a) = kv_lens(&rv);
	let combs = [1116, 1188, 1277, 1356, 1422, 1491, 1557, 1617];
	let alls = [556, 441, 341, 225];
	let mut i = 0;
	while i < 8 { assert!(c[i] == (combs[i], combs[i] + 23), "Freeverb comb tunings, right channel spread by 23 samples"); i += 1; }
	i = 0;
	while i < 4 { assert!(a[i] == (alls[i], alls[i] + 23), "Freeverb all-pass tunings"); i += 1; }
	rv.on_change_sample_rate(48000);
	let (c2, a2) = kv_lens(&rv);
	assert!(c2[0] == (1214, 1239) && c2[7] == (1760, 1785) && a2[3] == (244, 269), "line lengths scale with sample_rate / 44100 (floor)");
	rv.on_change_sample_rate(22050);
	let (c3, _a3) = kv_lens(&rv);
	assert!(c3[0] == (558, 569) && c3[7] == (808, 820), "and are re-sized when the rate goes down");
	kani::cover!(true, "w:reached");
	std::mem::forget(rv);
}
