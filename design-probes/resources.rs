#[kani::proof]
#[kani::unwind(4)]
fn storage_history_cap2() {
	let (mut storage, mut controller) = ResourceStorage::<u8>::new(2);
	let mut created: usize = 0;
	let mut removed: usize = 0;
	let mut next: u8 = 1;
	let mut remove_below: u8 = 0;
	for _ in 0..3 {
		let op: u8 = kani::any();
		kani::assume(op < 3);
		match op {
			0 => {
				let before = controller.len();
				let r = controller.insert(next);
				if before < 2 { assert!(r.is_ok()); created += 1; next += 1; } else { assert!(r.is_err()); }
			}
			1 => { remove_below = kani::any(); kani::assume(remove_below <= next); }
			_ => {
				let rb = remove_below;
				let before = storage.resources.len();
				storage.remove_and_add(|x| *x < rb);
				let _ = before;
			}
		}
		assert!(controller.len() <= 2);
	}
	let _ = (created, removed);
	removed += 0;
}
