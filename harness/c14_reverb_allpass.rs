// @append src/effect/reverb/all_pass.rs
// C14 / C13: the Freeverb all-pass unit.

// @h prop=C14,C13 tier=quick kind=main
// @bounds all-pass line of 1..3 frames (symbolic), any read index, small-integer contents and input; one step compared with the Freeverb all-pass equations (feedback 0.5)
// @funcs AllPassFilter::process
// @catches sign of the direct path; feedback constant; index wrap
#[kani::proof]
#[kani::unwind(5)]
fn c14_allpass_step_matches_freeverb() {
	let len: usize = kani::any();
	kani::assume(len >= 1 && len <= 3);
	let mut f = AllPassFilter::new(3);
	f.buffer.truncate(len);
	let sm = || { let v: i8 = kani::any(); kani::assume(v >= -4 && v <= 4); v as f32 };
	let mut i = 0;
	while i < len { f.buffer[i] = sm(); i += 1; }
	let idx: usize = kani::any();
	kani::assume(idx < len);
	f.current_index = idx;
	let x = sm();
	let b = f.buffer[idx];
	let y = f.process(x);
	assert!(y == -x + b, "all-pass output = delayed - input");
	assert!(f.buffer[idx] == x + b * 0.5, "line receives input + delayed x 0.5");
	assert!(f.current_index == (idx + 1) % len);
	if x == 0.0 && b == 0.0 { assert!(y == 0.0 && f.buffer[idx] == 0.0); }
	kani::cover!(len == 2 && idx == 1, "w:wrap");
	std::mem::forget(f);
}
