// @append src/parameter.rs
// C06: one update step of Parameter<T> from a symbolic Tweening/Idle state (private fields are
// constructed here, in a child module of `parameter`), so histories of any length are covered
// inductively. Durations come from a small concrete set (symbolic Duration<->f64 conversions do
// not finish in CBMC); everything else is symbolic.
include!(concat!(env!("KV_HARNESS_DIR"), "/lib/libm.rs"));

use crate::clock::Clock;
use crate::listener::Listener;
use crate::modulator::Modulator;
use crate::{Decibels, Easing};
use atomic_arena::Arena;

// memoised stand-in for Tween::value (a division by the duration and the easing): the step
// harnesses claim that it is called with exactly the accumulated time; c06_tween_value_* check
// Tween::value itself.
static mut KV_TV_TAB: [(f64, f64); 4] = [(0.0, 0.0); 4];
static mut KV_TV_N: usize = 0;
fn kv_tween_value(_tw: &Tween, time: f64) -> f64 {
	unsafe {
		if KV_TV_N > 0 && KV_TV_TAB[0].0.to_bits() == time.to_bits() { return KV_TV_TAB[0].1; }
		if KV_TV_N > 1 && KV_TV_TAB[1].0.to_bits() == time.to_bits() { return KV_TV_TAB[1].1; }
		if KV_TV_N > 2 && KV_TV_TAB[2].0.to_bits() == time.to_bits() { return KV_TV_TAB[2].1; }
		if KV_TV_N > 3 && KV_TV_TAB[3].0.to_bits() == time.to_bits() { return KV_TV_TAB[3].1; }
		let r: f64 = kani::any();
		kani::assume(r >= 0.0 && r <= 1.0);
		if KV_TV_N < 4 { KV_TV_TAB[KV_TV_N] = (time, r); KV_TV_N += 1; }
		r
	}
}

struct KvArenas(Arena<Clock>, Arena<Box<dyn Modulator>>, Arena<Listener>);
impl KvArenas {
	fn empty() -> Self { KvArenas(Arena::new(0), Arena::new(0), Arena::new(0)) }
	fn info(&self) -> Info<'_> { Info::new(&self.0, &self.1, &self.2, None) }
}

fn kv_finite64(bound: f64) -> f64 { let v: f64 = kani::any(); kani::assume(v.is_finite() && v.abs() <= bound); v }
fn kv_finite32(bound: f32) -> f32 { let v: f32 = kani::any(); kani::assume(v.is_finite() && v.abs() <= bound); v }

// ---- generic body: immediate start, Linear easing, T = f64 --------------------------------
fn kv_step_f64_immediate(duration: Duration) {
	let a = KvArenas::empty();
	let info = a.info();
	let dsecs = duration.as_secs_f64();
	let start = kv_finite64(1e300);
	let target = kv_finite64(1e300);
	let raw = kv_finite64(1e300);
	let prev = kv_finite64(1e300);
	let time: f64 = kani::any();
	kani::assume(time >= 0.0 && (time < dsecs || time == 0.0));
	let dt: f64 = kani::any();
	kani::assume(dt > 0.0 && dt <= 4.0);
	let mut p = Parameter::<f64> {
		state: State::Tweening { start, target: Value::Fixed(target), time, tween: Tween { start_time: StartTime::Immediate, duration, easing: Easing::Linear } },
		raw_value: raw,
		previous_raw_value: prev,
		stagnant: false,
	};
	let finished = p.update(dt, &info);
	assert!(p.previous_value() == raw, "previous value is the value before the update (continuity across chunks)");
	let t2 = time + dt;
	assert!(finished == (t2 >= dsecs), "the tween ends in exactly the update in which time reaches the duration");
	if finished {
		assert!(p.value().to_bits() == target.to_bits(), "from the end of the tween on the value equals the target exactly");
		assert!(p.stagnant);
		match p.state { State::Idle { value: Value::Fixed(v) } => assert!(v.to_bits() == target.to_bits()), _ => assert!(false, "state is Idle(target) after the tween") }
	} else {
		// (natively the real kernel and the real Tween::value run, so the same expression is the
		// reference value start + (target-start) * (t2/duration))
		let want = <f64 as Tweenable>::interpolate(start, target, Tween { start_time: StartTime::Immediate, duration, easing: Easing::Linear }.value(t2));
		assert!(p.value().to_bits() == want.to_bits(), "value == interpolate(start, target, ease(elapsed/duration))");
		assert!(!p.stagnant);
		match p.state { State::Tweening { start: s, time: t, target: Value::Fixed(g), .. } => assert!(s == start && t == t2 && g == target), _ => assert!(false, "still tweening") }
	}
	kani::cover!(finished, "w:finishes");
	kani::cover!(duration.is_zero() || (!finished && time > 0.0), "w:mid-tween(or zero duration)");
}

// @h prop=C06 tier=quick kind=main
// @bounds T=f64, Linear, immediate start, duration 250 ms, time in [0,d), dt in (0,4] s, start/target/raw finite |v|<=1e300 (all f64 bit patterns in range)
// @funcs Parameter::update, Parameter::update_tween, Parameter::calculate_new_raw_value, Tween::value, Easing::apply
// @assume Tween::value is replaced by a memoised stand-in (claim: called with exactly time+dt; Tween::value itself: c06_tween_value_*); Duration::from_secs_f64 (unused with an Immediate start) returns an arbitrary Duration
// @assume the arithmetic kernel <f64 as Tweenable>::interpolate is replaced by a memoised uninterpreted function (kv_interp64): the claim is that it is called with bit-identical (start, target, ease(elapsed/duration)); the kernel itself is checked by c06_interpolate_* and c19_db_interpolate_endpoints
// @catches `>=` -> `>` in the finish test; target not reached exactly; time not accumulated; stagnant not set; previous value not latched
#[kani::proof]
#[kani::unwind(2)]
#[kani::stub(<f64 as Tweenable>::interpolate, kv_interp64)]
#[kani::stub(Tween::value, kv_tween_value)]
#[kani::stub(Duration::from_secs_f64, kv_duration_from_secs_any)]
fn c06_param_f64_step_d250ms() { kv_step_f64_immediate(Duration::from_millis(250)); }

// @h prop=C06 tier=quick kind=main
// @bounds as above with the default tween duration 10 ms
// @funcs Parameter::update, Parameter::update_tween, Parameter::calculate_new_raw_value
#[kani::proof]
#[kani::unwind(2)]
#[kani::stub(<f64 as Tweenable>::interpolate, kv_interp64)]
#[kani::stub(Tween::value, kv_tween_value)]
#[kani::stub(Duration::from_secs_f64, kv_duration_from_secs_any)]
fn c06_param_f64_step_d10ms() { kv_step_f64_immediate(Duration::from_millis(10)); }

// @h prop=C06 tier=quick kind=main
// @bounds as above with a ZERO duration: the tween takes effect at the next update, whatever dt
// @funcs Parameter::update, Parameter::update_tween, Parameter::calculate_new_raw_value
// @catches zero-duration tween dividing by zero / producing NaN / needing two updates
#[kani::proof]
#[kani::unwind(2)]
#[kani::stub(<f64 as Tweenable>::interpolate, kv_interp64)]
#[kani::stub(Tween::value, kv_tween_value)]
#[kani::stub(Duration::from_secs_f64, kv_duration_from_secs_any)]
fn c06_param_f64_step_d0() { kv_step_f64_immediate(Duration::ZERO); }

// @h prop=C06 tier=thorough kind=main
// @bounds as above with duration 2 s
// @funcs Parameter::update
#[kani::proof]
#[kani::unwind(2)]
#[kani::stub(<f64 as Tweenable>::interpolate, kv_interp64)]
#[kani::stub(Tween::value, kv_tween_value)]
#[kani::stub(Duration::from_secs_f64, kv_duration_from_secs_any)]
fn c06_param_f64_step_d2s() { kv_step_f64_immediate(Duration::from_secs(2)); }

// ---- Decibels (f32) with every easing --------------------------------------------------------
fn kv_easing(sel: u8, pi: i32, pf: f64) -> Easing {
	match sel { 0 => Easing::Linear, 1 => Easing::InPowi(pi), 2 => Easing::OutPowi(pi), 3 => Easing::InOutPowi(pi), 4 => Easing::InPowf(pf), 5 => Easing::OutPowf(pf), _ => Easing::InOutPowf(pf) }
}

// @h prop=C06 tier=quick kind=main
// @bounds T=Decibels(f32), any of the seven easings (symbolic variant and power), immediate start, duration 250 ms, dt in (0,1]
// @funcs Parameter::<Decibels>::update, <Decibels as Tweenable>::interpolate
// @assume Tween::value and <f32 as Tweenable>::interpolate replaced by memoised stand-ins; Duration::from_secs_f64 arbitrary (unused)
// @catches interpolation from the wrong start; target not exact at the end; Decibels wrapper not delegating to the f32 kernel
#[kani::proof]
#[kani::unwind(2)]
#[kani::stub(<f32 as Tweenable>::interpolate, kv_interp32)]
#[kani::stub(Tween::value, kv_tween_value)]
#[kani::stub(Duration::from_secs_f64, kv_duration_from_secs_any)]
fn c06_param_db_step() {
	let sel: u8 = kani::any();
	let pi: i32 = kani::any();
	let pf: f64 = kani::any();
	kani::assume(sel < 7);
	let start = kv_finite32(200.0);
	let target = kv_finite32(200.0);
	let raw = kv_finite32(200.0);
	let time: f64 = kani::any();
	let dt: f64 = kani::any();
	let duration = Duration::from_millis(250);
	kani::assume(time >= 0.0 && time < 0.25 && dt > 0.0 && dt <= 1.0);
	let a = KvArenas::empty();
	let info = a.info();
	let easing = kv_easing(sel, pi, pf);
	let tween = Tween { start_time: StartTime::Immediate, duration, easing };
	let mut p = Parameter::<Decibels> {
		state: State::Tweening { start: Decibels(start), target: Value::Fixed(Decibels(target)), time, tween },
		raw_value: Decibels(raw),
		previous_raw_value: Decibels(raw),
		stagnant: false,
	};
	let finished = p.update(dt, &info);
	let t2 = time + dt;
	assert!(finished == (t2 >= 0.25));
	assert!(p.previous_value().0.to_bits() == raw.to_bits());
	if finished {
		assert!(p.value().0.to_bits() == target.to_bits(), "ends exactly on target");
	} else {
		let want = <f32 as Tweenable>::interpolate(start, target, tween.value(t2));
		assert!(p.value().0.to_bits() == want.to_bits(), "follows interpolate(start, target, ease(t/d))");
	}
	kani::cover!(!finished && sel == 3, "w:inoutpowi-mid");
	kani::cover!(finished && sel == 6, "w:finish");
}

// @h prop=C06 tier=experimental kind=main timeout=1700
// @note no answer in 1700 s (a bound through an f32 multiplier with two symbolic operands): NOT decided, never run
// @bounds T=Decibels(f32), Linear, the fade range [-60,0] and any |v|<=200; amount in [0,1]: value within [min,max] widened by one f32 ulp of the larger magnitude
// @funcs <f32 as Tweenable>::interpolate
// @catches extrapolation (amount not clamped / wrong sign), overshoot beyond rounding
#[kani::proof]
#[kani::unwind(2)]
fn c06_interpolate_f32_stays_between() {
	let a = kv_finite32(200.0);
	let b = kv_finite32(200.0);
	let t: f64 = kani::any();
	kani::assume(t >= 0.0 && t <= 1.0);
	let v = <f32 as Tweenable>::interpolate(a, b, t);
	let lo = if a < b { a } else { b };
	let hi = if a < b { b } else { a };
	let slack = 200.0f32 * 1.1920929e-7 * 2.0;
	assert!(v >= lo - slack && v <= hi + slack, "linear interpolation never leaves [start,target] (to rounding)");
	kani::cover!(a > b && t > 0.0 && t < 1.0, "w:descending-inside");
}

// ---- delayed start ---------------------------------------------------------------------------
fn kv_step_delayed(dt: f64) {
	let a = KvArenas::empty();
	let info = a.info();
	let start = kv_finite64(1e300);
	let target = kv_finite64(1e300);
	let raw = kv_finite64(1e300);
	let secs: u64 = kani::any();
	let nanos: u32 = kani::any();
	kani::assume(secs <= 3 && nanos < 1_000_000_000);
	let remaining = Duration::new(secs, nanos);
	let duration = Duration::from_millis(250);
	let mut p = Parameter::<f64> {
		state: State::Tweening { start, target: Value::Fixed(target), time: 0.0, tween: Tween { start_time: StartTime::Delayed(remaining), duration, easing: Easing::Linear } },
		raw_value: raw,
		previous_raw_value: raw,
		stagnant: false,
	};
	let finished = p.update(dt, &info);
	if !remaining.is_zero() {
		// not started: keeps the old value, the tween clock does not run, the delay counts down
		assert!(!finished);
		assert!(p.value() == start,
			"a parameter keeps its old value until the tween's start time");
		match p.state {
			State::Tweening { time, tween: Tween { start_time: StartTime::Delayed(r), .. }, .. } => {
				assert!(time == 0.0, "elapsed time does not run before the start");
				assert!(r == remaining.saturating_sub(Duration::from_secs_f64(dt)), "delay counts down by dt, saturating at zero");
			}
			_ => assert!(false, "still waiting"),
		}
	} else {
		// delay elapsed: behaves as an immediate tween
		assert!(finished == (dt >= 0.25));
		if !finished { assert!(p.value().to_bits() == <f64 as Tweenable>::interpolate(start, target, dt / 0.25).to_bits()); }
		else { assert!(p.value().to_bits() == target.to_bits()); }
	}
	kani::cover!(!remaining.is_zero() && remaining < Duration::from_secs_f64(dt), "w:delay-shorter-than-update");
	kani::cover!(remaining.is_zero(), "w:delay-elapsed");
}

// @h prop=C06 tier=quick kind=main
// @bounds Delayed start with symbolic remaining delay (0..4 s, nanosecond resolution), dt = 1/8 s (exact), duration 250 ms
// @funcs Parameter::update_tween (Delayed arm), Parameter::calculate_new_raw_value
// @catches delay counted twice or not at all; tween clock running during the delay; value moving before the start
#[kani::proof]
#[kani::unwind(2)]
#[kani::stub(<f64 as Tweenable>::interpolate, kv_interp64)]
fn c06_param_delayed_dt125ms() { kv_step_delayed(0.125); }

// @h prop=C06 tier=thorough kind=main
// @bounds as above with dt = 1 s (delay shorter than one update is common)
// @funcs Parameter::update_tween (Delayed arm)
#[kani::proof]
#[kani::unwind(2)]
#[kani::stub(<f64 as Tweenable>::interpolate, kv_interp64)]
fn c06_param_delayed_dt1s() { kv_step_delayed(1.0); }

// ---- the value a tween starts from: raw_value is `start + ...` of the FIRST update ----------
// @h prop=C06 tier=quick kind=main
// @bounds any Parameter<f64> state (Idle or mid-tween, symbolic fields), any finite target, the four concrete durations
// @funcs Parameter::set, Parameter::value, Parameter::interpolated_value, Parameter::previous_value
// @catches new tween starting from the old target or from the previous start instead of the current (mid-tween) value; stagnant not cleared
#[kani::proof]
#[kani::unwind(2)]
fn c06_param_set_starts_from_current_value() {
	let raw = kv_finite64(1e300);
	let prev = kv_finite64(1e300);
	let old_start = kv_finite64(1e300);
	let old_target = kv_finite64(1e300);
	let time: f64 = kani::any();
	kani::assume(time >= 0.0 && time < 1.0);
	let idle: bool = kani::any();
	let stagnant: bool = kani::any();
	let dsel: u8 = kani::any();
	let duration = match dsel % 4 { 0 => Duration::ZERO, 1 => Duration::from_millis(10), 2 => Duration::from_millis(250), _ => Duration::from_secs(1) };
	let mut p = Parameter::<f64> {
		state: if idle { State::Idle { value: Value::Fixed(old_target) } } else { State::Tweening { start: old_start, target: Value::Fixed(old_target), time, tween: Tween { start_time: StartTime::Immediate, duration: Duration::from_secs(1), easing: Easing::Linear } } },
		raw_value: raw,
		previous_raw_value: prev,
		stagnant: idle && stagnant,
	};
	let new_target = kv_finite64(1e300);
	p.set(Value::Fixed(new_target), Tween { start_time: StartTime::Immediate, duration, easing: Easing::Linear });
	assert!(!p.stagnant);
	assert!(p.value() == raw && p.previous_value() == prev, "set() itself does not move the value");
	match p.state {
		State::Tweening { start, target: Value::Fixed(g), time, tween } => {
			assert!(start.to_bits() == raw.to_bits(), "a new tween begins from the current, possibly mid-tween, value");
			assert!(g == new_target && time == 0.0 && tween.duration == duration);
		}
		_ => assert!(false, "tweening after set"),
	}
	// per-frame interpolation inside a chunk: from the previous chunk's final value ...
	if (raw - prev).is_finite() { assert!(p.interpolated_value(0.0) == prev, "a chunk starts from the previous chunk's final value"); }
	kani::cover!(!idle && time > 0.0, "w:mid-tween");
	kani::cover!(idle && stagnant, "w:stagnant-idle");
}

// @h prop=C06 tier=quick kind=main
// @bounds stagnant / Idle(Fixed) parameter, any dt in (0,4]
// @funcs Parameter::update
// @catches a settled parameter drifting, or previous value not following
#[kani::proof]
#[kani::unwind(2)]
fn c06_param_idle_holds_value() {
	let a = KvArenas::empty();
	let info = a.info();
	let v = kv_finite64(1e300);
	let raw = kv_finite64(1e300);
	let prev = kv_finite64(1e300);
	let stagnant: bool = kani::any();
	kani::assume(!stagnant || raw == v);
	let dt: f64 = kani::any();
	kani::assume(dt > 0.0 && dt <= 4.0);
	let mut p = Parameter::<f64> { state: State::Idle { value: Value::Fixed(v) }, raw_value: raw, previous_raw_value: prev, stagnant };
	let finished = p.update(dt, &info);
	assert!(!finished);
	assert!(p.value() == v && p.previous_value() == raw);
	kani::cover!(!stagnant && raw != v, "w:idle-not-yet-settled");
}

// @h prop=C06 tier=quick kind=main
// @bounds times and steps on the 1/1024 s grid (exact in f64): time k/1024 < 1, d1,d2 in (0,2]; duration 1 s; Linear; finite start/target
// @funcs Parameter::update (twice) vs Parameter::update (once)
// @catches a result that depends on how elapsed time is partitioned into updates (e.g. per-update rounding of progress, time reset)
#[kani::proof]
#[kani::unwind(2)]
#[kani::stub(<f64 as Tweenable>::interpolate, kv_interp64)]
#[kani::stub(Tween::value, kv_tween_value)]
#[kani::stub(Duration::from_secs_f64, kv_duration_from_secs_any)]
fn c06_param_partition_independent() {
	let a = KvArenas::empty();
	let info = a.info();
	let start = kv_finite64(1e300);
	let target = kv_finite64(1e300);
	let raw = kv_finite64(1e300);
	let k0: u16 = kani::any();
	let k1: u16 = kani::any();
	let k2: u16 = kani::any();
	kani::assume(k0 < 1024 && k1 >= 1 && k1 <= 2048 && k2 >= 1 && k2 <= 2048);
	let (time, d1, d2) = (k0 as f64 / 1024.0, k1 as f64 / 1024.0, k2 as f64 / 1024.0);
	let mk = || Parameter::<f64> {
		state: State::Tweening { start, target: Value::Fixed(target), time, tween: Tween { start_time: StartTime::Immediate, duration: Duration::from_secs(1), easing: Easing::Linear } },
		raw_value: raw, previous_raw_value: raw, stagnant: false,
	};
	let mut p = mk();
	let mut q = mk();
	let f1 = p.update(d1, &info);
	let f2 = p.update(d2, &info);
	let g = q.update(d1 + d2, &info);
	assert!((f1 || f2) == g, "finishes in the same span of time");
	assert!(p.value().to_bits() == q.value().to_bits(), "same value however the time is split");
	kani::cover!(!g, "w:both-mid-tween");
	kani::cover!(f1 && g, "w:finished-in-first-part");
	kani::cover!(!f1 && f2, "w:finished-in-second-part");
}

// ---- Tween::value itself ------------------------------------------------------------------------
static mut KV_EA_X: f64 = 0.0;
static mut KV_EA_CALLS: u32 = 0;
static mut KV_EA_E: Easing = Easing::Linear;
fn kv_easing_apply_spy(_e: &Easing, x: f64) -> f64 { unsafe { KV_EA_X = x; KV_EA_CALLS += 1; KV_EA_E = *_e; } let r: f64 = kani::any(); unsafe { KV_EA_R = r; } r }
static mut KV_EA_R: f64 = 0.0;

fn kv_tween_value_body(duration: Duration) {
	let time: f64 = kani::any();
	kani::assume(time >= 0.0 && time <= 8.0);
	let sel: u8 = kani::any();
	let pi: i32 = kani::any();
	let pf: f64 = kani::any();
	kani::assume(sel < 7 && !pf.is_nan());
	let tw = Tween { start_time: StartTime::Immediate, duration, easing: kv_easing(sel, pi, pf) };
	let v = tw.value(time);
	let d = duration.as_secs_f64();
	if cfg!(kv_native) { let want = tw.easing.apply(time / d); assert!(v.to_bits() == want.to_bits() || (v.is_nan() && want.is_nan()), "native: Tween::value == ease(time/duration)"); return; }
	unsafe {
		assert!(KV_EA_CALLS == 1 && KV_EA_E == tw.easing, "the tween's own easing is applied exactly once");
		assert!(v.to_bits() == KV_EA_R.to_bits(), "Tween::value returns the eased progress");
		// progress handed to the easing is elapsed/duration: check by the defining inequalities of
		// a correctly rounded quotient q = time/d  (|q*d - time| <= ulp) without a second divider
		let q = KV_EA_X;
		assert!(q >= 0.0);
		if time == 0.0 { assert!(q == 0.0); }
		if time == d { assert!(q == 1.0, "progress is exactly 1 when elapsed == duration"); }
		if time < d { assert!(q < 1.0 || q == 1.0); }
		if time > d { assert!(q >= 1.0); }
		if time <= d { assert!(q <= 1.0); }
	}
	kani::cover!(time > 0.0 && time < d, "w:inside");
	kani::cover!(time == d, "w:at-end");
}

// @h prop=C06 tier=quick kind=main
// @bounds duration 250 ms, elapsed time in [0,8] s (all f64 bit patterns in range), any easing variant/power
// @funcs Tween::value
// @assume Easing::apply replaced by a spy that records its argument
// @catches progress computed as duration/elapsed, or from a stale duration; easing applied twice
#[kani::proof]
#[kani::unwind(2)]
#[kani::stub(Easing::apply, kv_easing_apply_spy)]
fn c06_tween_value_d250ms() { kv_tween_value_body(Duration::from_millis(250)); }

// @h prop=C06 tier=quick kind=main
// @bounds duration 10 ms (non-dyadic divisor), elapsed time in [0,8] s
// @funcs Tween::value
#[kani::proof]
#[kani::unwind(2)]
#[kani::stub(Easing::apply, kv_easing_apply_spy)]
fn c06_tween_value_d10ms() { kv_tween_value_body(Duration::from_millis(10)); }

// ---- a tween scheduled on a clock time ------------------------------------------------------------
// @h prop=C06,C05 tier=quick kind=main timeout=600
// @bounds Parameter<f64> with a 250 ms tween whose start is StartTime::ClockTime(target) over a real Arena<Clock> of capacity 1 (clock present / gone, ticking / paused, time and target symbolic); one update of 1/8 s
// @funcs Parameter::update_tween (ClockTime arm), Info::when_to_start
// @assume Tween::value and <f64 as Tweenable>::interpolate replaced by memoised stand-ins; Duration::from_secs_f64 arbitrary (unused)
// @catches a tween starting before the clock reaches its time or while the clock is paused; not starting when it is due; moving the value while waiting
// @requires kv_clock_force.rs
#[kani::proof]
#[kani::unwind(3)]
#[kani::stub(Tween::value, kv_tween_value)]
#[kani::stub(<f64 as Tweenable>::interpolate, kv_interp64)]
#[kani::stub(Duration::from_secs_f64, kv_duration_from_secs_any)]
fn c06_param_tween_starts_when_its_clock_time_is_reached() {
	let mut clocks: Arena<Clock> = Arena::new(1);
	let key = clocks.controller().try_reserve().unwrap();
	let id = crate::clock::ClockId(key);
	let (present, ticking): (bool, bool) = (kani::any(), kani::any());
	let (ticks, tt): (u64, u64) = (kani::any(), kani::any());
	let (fraction, tf): (f64, f64) = (kani::any(), kani::any());
	kani::assume(ticks <= (1 << 40) && tt <= (1 << 40) && fraction >= 0.0 && fraction < 1.0 && tf >= 0.0 && tf < 1.0);
	let (start, target, raw) = (kv_finite64(1e300), kv_finite64(1e300), kv_finite64(1e300));
	if present {
		let mut c = Clock::without_handle(Value::Fixed(crate::clock::ClockSpeed::TicksPerSecond(1.0)));
		c.kv_force(ticking, ticks, fraction);
		let r = clocks.insert_with_key(key, c); std::mem::forget(r);
	}
	let a = KvArenas::empty();
	let info = Info::new(&clocks, &a.1, &a.2, None);
	let tween = Tween { start_time: StartTime::ClockTime(crate::clock::ClockTime { clock: id, ticks: tt, fraction: tf }), duration: Duration::from_millis(250), easing: Easing::Linear };
	let mut p = Parameter::<f64> { state: State::Tweening { start, target: Value::Fixed(target), time: 0.0, tween }, raw_value: raw, previous_raw_value: raw, stagnant: false };
	let finished = p.update(0.125, &info);
	let reached = ticks > tt || (ticks == tt && fraction >= tf);
	let time_now = match p.state { State::Tweening { time, .. } => time, _ => -1.0 };
	if present && ticking && reached {
		assert!(!finished && time_now == 0.125, "the tween starts in the update in which the clock has reached its time");
	} else {
		assert!(!finished && time_now == 0.0, "a parameter keeps waiting while the clock is short of the time, paused, or gone");
	}
	kani::cover!(present && ticking && ticks == tt && fraction == tf, "w:exactly-on-time");
	kani::cover!(!present, "w:clock-gone");
	std::mem::forget(clocks);
}
