// @append src/effect/volume_control.rs
// C13 / C14: volume control.
include!(concat!(env!("KV_HARNESS_DIR"), "/lib/libm.rs"));
use crate::Value;
use atomic_arena::Arena;

// @h prop=C13,C14 tier=quick kind=main
// @bounds VolumeControl at a fixed level: 0 dB (identity), -60 dB and below (exact silence), any other finite f32 level (x * amplitude with the amplitude from the powf contract); 2-frame chunk of finite frames |x| <= 1e30
// @funcs VolumeControl::process, Decibels::as_amplitude
// @assume powf contract stub
// @catches 0 dB not transparent; -60 dB not silent; gain applied twice or to one channel; frames processed out of place
#[kani::proof]
#[kani::unwind(4)]
#[kani::stub(f32::powf, kv_powf32)]
fn c13_volume_control_laws() {
	let d: f32 = kani::any();
	kani::assume(d.is_finite());
	let (w, r) = command_writers_and_readers();
	std::mem::forget(w);
	let mut fx = VolumeControl { command_readers: r, volume: Parameter::new(Value::Fixed(Decibels(d)), Decibels::IDENTITY) };
	let x0: f32 = kani::any();
	let x1: f32 = kani::any();
	kani::assume(x0.is_finite() && x1.is_finite() && x0.abs() <= 1e30 && x1.abs() <= 1e30);
	let c: Arena<crate::clock::Clock> = Arena::new(0);
	let m: Arena<Box<dyn crate::modulator::Modulator>> = Arena::new(0);
	let l: Arena<crate::listener::Listener> = Arena::new(0);
	let info = Info::new(&c, &m, &l, None);
	let mut buf = [Frame::new(x0, -x0), Frame::new(x1, x1)];
	fx.process(&mut buf, 1.0 / 48000.0, &info);
	if d == 0.0 { assert!(buf[0].left == x0 && buf[0].right == -x0 && buf[1].left == x1 && buf[1].right == x1, "0 dB volume leaves the signal unchanged"); }
	if d <= -60.0 { assert!(buf[0] == Frame::ZERO && buf[1] == Frame::ZERO, "-60 dB or less is exact silence"); }
	if x0 == 0.0 && x1 == 0.0 && Decibels(d).as_amplitude().is_finite() { assert!(buf[0] == Frame::ZERO && buf[1] == Frame::ZERO, "silence in, silence out"); }
	if d < 0.0 { assert!(buf[0].left.abs() <= x0.abs() && buf[1].left.abs() <= x1.abs(), "attenuation never raises the level"); }
	kani::cover!(d == 0.0 && x0 != 0.0, "w:unity");
	kani::cover!(d < 0.0 && d > -60.0, "w:attenuating");
	std::mem::forget(fx); std::mem::forget(c); std::mem::forget(m); std::mem::forget(l);
}
