// @append src/effect/filter.rs
// C13 / C14: state-variable filter: one frame from ANY finite state, coefficients concretised at
// the default cutoff (1 kHz at 48 kHz): tan() is replaced by the constant the real libm returns there
// (checked natively by kv/validate_stubs), so a1/a2/a3/k are constants and only signal and state are symbolic.
use crate::Value;
use atomic_arena::Arena;

const KV_TAN_1K_48K: f64 = 0.06554346281523822; // tan(pi * 1000 / 48000)
fn kv_tan_const(_x: f64) -> f64 { KV_TAN_1K_48K }

fn kv_filter(mode: FilterMode, mix: f32, s1: Frame, s2: Frame) -> Filter {
	let (w, r) = command_writers_and_readers();
	std::mem::forget(w);
	// built through the crate's own constructor and then put into the symbolic state, so that a change that adds a
	// field to Filter still builds (a struct literal here once made the whole check inconclusive on such a change)
	let mut b = FilterBuilder::new();
	b.mode = mode; b.cutoff = Value::Fixed(1000.0); b.resonance = Value::Fixed(0.0); b.mix = Value::Fixed(Mix(mix));
	let mut fx = Filter::new(b, r);
	fx.ic1eq = s1; fx.ic2eq = s2;
	fx
}
fn kv_mode() -> FilterMode { let m: u8 = kani::any(); match m % 4 { 0 => FilterMode::LowPass, 1 => FilterMode::BandPass, 2 => FilterMode::HighPass, _ => FilterMode::Notch } }
fn kv_fin(b: f32) -> f32 { let v: f32 = kani::any(); kani::assume(v.is_finite() && v.abs() <= b); v }
fn kv_run(fx: &mut Filter, x: Frame) -> Frame {
	let c: Arena<crate::clock::Clock> = Arena::new(0);
	let m: Arena<Box<dyn crate::modulator::Modulator>> = Arena::new(0);
	let l: Arena<crate::listener::Listener> = Arena::new(0);
	let info = Info::new(&c, &m, &l, None);
	let mut buf = [x];
	fx.process(&mut buf, 1.0 / 48000.0, &info);
	std::mem::forget(c); std::mem::forget(m); std::mem::forget(l);
	buf[0]
}

// @h prop=C13 tier=quick kind=main timeout=600
// @bounds all four modes; mix 0 (fully dry); any finite input and any finite integrator state |v| <= 1e6; cutoff 1 kHz, resonance 0, 48 kHz
// @funcs Filter::process
// @assume f64::tan replaced by its native value at the one argument used
// @catches dry path attenuated or mixed with the wet signal; a non-finite wet path leaking NaN into the dry output; state blowing up from a finite state
#[kani::proof]
#[kani::unwind(3)]
#[kani::stub(f64::tan, kv_tan_const)]
fn c13_filter_dry_is_identity_and_state_stays_finite() {
	let x = Frame::new(kv_fin(1e6), kv_fin(1e6));
	let mut fx = kv_filter(kv_mode(), 0.0, Frame::new(kv_fin(1e6), kv_fin(1e6)), Frame::new(kv_fin(1e6), kv_fin(1e6)));
	let y = kv_run(&mut fx, x);
	assert!(y.left == x.left && y.right == x.right, "fully dry leaves the signal unchanged");
	assert!(fx.ic1eq.left.is_finite() && fx.ic1eq.right.is_finite() && fx.ic2eq.left.is_finite() && fx.ic2eq.right.is_finite(), "finite in, finite state: finite state out");
	kani::cover!(x.left != 0.0, "w:signal");
	std::mem::forget(fx);
}

// @h prop=C13 tier=quick kind=main timeout=600
// @bounds all four modes, any mix in [0,1] (symbolic f32): silence in with cleared state -> exact silence out and cleared state
// @funcs Filter::process
// @assume f64::tan replaced by its native value
// @catches a DC offset or denormal seed injected by the filter
#[kani::proof]
#[kani::unwind(3)]
#[kani::stub(f64::tan, kv_tan_const)]
fn c13_filter_silence_stays_silent() {
	let mix: f32 = kani::any();
	kani::assume(mix >= 0.0 && mix <= 1.0);
	let mut fx = kv_filter(kv_mode(), mix, Frame::ZERO, Frame::ZERO);
	let y = kv_run(&mut fx, Frame::ZERO);
	assert!(y == Frame::ZERO && fx.ic1eq == Frame::ZERO && fx.ic2eq == Frame::ZERO, "silence in, cleared state: exact silence out, state still cleared");
	kani::cover!(mix > 0.0 && mix < 1.0, "w:partial-mix");
	std::mem::forget(fx);
}

// @h prop=C14,C13 tier=quick kind=main timeout=600
// @bounds fully wet, all four modes; input and integrator state small integers |v| <= 4 (mono); one frame: compared with the Simper/Cytomic trapezoidal SVF update written out with the same constants (agreement within 1e-4)
// @funcs Filter::process
// @assume f64::tan replaced by its native value
// @catches a changed coefficient formula (a1 = 1/(1+g(g+k)), a2 = g a1, a3 = g a2, k = 2 - 1.9 r), update order of the two integrators, or mode output taps (low = v2, band = v1, high = x - k v1 - v2, notch = x - k v1)
#[kani::proof]
#[kani::unwind(3)]
#[kani::stub(f64::tan, kv_tan_const)]
fn c14_filter_step_matches_cited_svf() {
	let sm = || { let v: i8 = kani::any(); kani::assume(v >= -4 && v <= 4); v as f32 };
	let (x, s1, s2) = (sm(), sm(), sm());
	let mode = kv_mode();
	let mut fx = kv_filter(mode, 1.0, Frame::from_mono(s1), Frame::from_mono(s2));
	let y = kv_run(&mut fx, Frame::from_mono(x));
	// reference
	let g = KV_TAN_1K_48K;
	let k = 2.0f64;
	let a1 = 1.0 / (1.0 + g * (g + k));
	let a2 = g * a1;
	let a3 = g * a2;
	let v3 = x - s2;
	let v1 = s1 * (a1 as f32) + v3 * (a2 as f32);
	let v2 = s2 + s1 * (a2 as f32) + v3 * (a3 as f32);
	let out = match mode { FilterMode::LowPass => v2, FilterMode::BandPass => v1, FilterMode::HighPass => x - v1 * (k as f32) - v2, FilterMode::Notch => x - v1 * (k as f32) };
	// within 1e-4 (values are of magnitude <= 40): a re-association of the same equations must not raise an alarm
	let close = |a: f32, b: f32| (a - b).abs() <= 1.0e-4;
	assert!(close(y.left, out), "output tap of the selected mode");
	assert!(close(fx.ic1eq.left, v1 * 2.0 - s1) && close(fx.ic2eq.left, v2 * 2.0 - s2), "trapezoidal integrator update");
	kani::cover!(x != 0.0 && s1 != 0.0, "w:non-trivial");
	std::mem::forget(fx);
}

// @h prop=C13 tier=quick kind=main timeout=900
// @bounds fully wet, all four modes, coefficients at 1 kHz / 48 kHz; input and integrator state small integers |v| <= 4: the step applied to (-x, -state) gives exactly the negated result, and applied to (2x, 2 state) exactly the doubled result (output and new state)
// @funcs Filter::process
// @assume f64::tan replaced by its native value
// @catches a non-linear term slipping into the filter (a clamp, an offset, a rectification, state-dependent coefficients): homogeneity f(-x) = -f(x), f(2x) = 2 f(x) is the part of superposition that floats satisfy exactly
#[kani::proof]
#[kani::unwind(3)]
#[kani::stub(f64::tan, kv_tan_const)]
fn c13_filter_is_homogeneous() {
	let sm = || { let v: i8 = kani::any(); kani::assume(v >= -4 && v <= 4); v as f32 };
	let (x, s1, s2) = (sm(), sm(), sm());
	let mode = kv_mode();
	let neg: bool = kani::any();
	let k = if neg { -1.0f32 } else { 2.0f32 };
	let mut a = kv_filter(mode, 1.0, Frame::from_mono(s1), Frame::from_mono(s2));
	let mut b = kv_filter(mode, 1.0, Frame::from_mono(s1 * k), Frame::from_mono(s2 * k));
	let ya = kv_run(&mut a, Frame::from_mono(x));
	let yb = kv_run(&mut b, Frame::from_mono(x * k));
	assert!(yb.left == ya.left * k, "scaling the input and the state scales the output by the same factor");
	assert!(b.ic1eq.left == a.ic1eq.left * k && b.ic2eq.left == a.ic2eq.left * k, "and the new state");
	kani::cover!(neg && x != 0.0, "w:negated");
	kani::cover!(!neg && s1 != 0.0, "w:doubled");
	std::mem::forget(a); std::mem::forget(b);
}

// @h prop=C07 tier=quick kind=main timeout=900
// @bounds real Filter with its command channel: set_mode written zero, one or two times (symbolic modes) before a callback; on_start_processing twice
// @funcs Filter::on_start_processing, CommandReader::read
// @catches an effect command lost, applied late, or the first of a burst winning
#[kani::proof]
#[kani::unwind(3)]
fn c07_filter_mode_command_applied_exactly_once() {
	let (mut w, r) = command_writers_and_readers();
	let mut fx = Filter::new(FilterBuilder::new(), r); // defaults: low pass, 1 kHz, resonance 0, fully wet
	let n: u8 = kani::any();
	kani::assume(n <= 2);
	let (m1, m2) = (kv_mode(), kv_mode());
	if n >= 1 { w.set_mode.write(m1); }
	if n >= 2 { w.set_mode.write(m2); }
	fx.on_start_processing();
	let want = match n { 0 => FilterMode::LowPass, 1 => m1, _ => m2 };
	assert!(fx.mode == want, "the last mode written since the previous callback is the one in force");
	fx.mode = FilterMode::Notch;
	fx.on_start_processing();
	assert!(fx.mode == FilterMode::Notch, "a second drain does not re-apply the command");
	kani::cover!(n == 2 && m1 != m2, "w:burst");
	std::mem::forget(fx); std::mem::forget(w);
}

// tan spy: records the argument the coefficient computation hands to tan()
static mut KV_TAN_ARG: f64 = 0.0;
static mut KV_TAN_N: u32 = 0;
fn kv_tan_spy(x: f64) -> f64 { unsafe { KV_TAN_ARG = x; KV_TAN_N += 1; } KV_TAN_1K_48K }

// @h prop=C16,C13,C14 tier=quick kind=main timeout=600
// @bounds a filter (cutoff 1 kHz) initialised at one device rate (8 k, 24 k, 44.1 k or 192 kHz), told about a change to another rate of that set, then one frame processed with the dt of the NEW rate; filter at rest, any non-zero small-integer input. Native replay: bit-identical output with a filter that was created at the new rate
// @funcs Filter::process, Effect::init / Effect::on_change_sample_rate for Filter
// @assume f64::tan replaced by a recording stand-in
// @catches a cutoff in hertz that does not survive a device sample-rate change (coefficient derived from a rate cached at init instead of the rate in force): the argument of tan must be pi x cutoff x dt for the dt in force
#[kani::proof]
#[kani::unwind(3)]
#[kani::stub(f64::tan, kv_tan_spy)]
fn c16_filter_cutoff_uses_the_rate_in_force() {
	let pick = |s: u8| match s % 4 { 0 => 8000u32, 1 => 24000, 2 => 44100, _ => 192000 };
	let (a, b): (u8, u8) = (kani::any(), kani::any());
	let (old_rate, new_rate) = (pick(a), pick(b));
	let sm = || { let v: i8 = kani::any(); kani::assume(v >= -4 && v <= 4); v as f32 };
	// a non-zero input on a filter at rest: the output then depends on the coefficient, so that the native replay
	// (which has no spy and compares outputs) can see what the spy saw
	let (x, s1, s2) = (sm(), 0.0f32, 0.0f32);
	kani::assume(x != 0.0);
	let mut fx = kv_filter(FilterMode::LowPass, 1.0, Frame::from_mono(s1), Frame::from_mono(s2));
	crate::effect::Effect::init(&mut fx, old_rate, 128);
	crate::effect::Effect::on_change_sample_rate(&mut fx, new_rate);
	let dt = 1.0 / new_rate as f64;
	let c: Arena<crate::clock::Clock> = Arena::new(0);
	let m: Arena<Box<dyn crate::modulator::Modulator>> = Arena::new(0);
	let l: Arena<crate::listener::Listener> = Arena::new(0);
	let info = Info::new(&c, &m, &l, None);
	let mut buf = [Frame::from_mono(x)];
	fx.process(&mut buf, dt, &info);
	if cfg!(kv_native) {
		let mut fresh = kv_filter(FilterMode::LowPass, 1.0, Frame::from_mono(s1), Frame::from_mono(s2));
		crate::effect::Effect::init(&mut fresh, new_rate, 128);
		let mut buf2 = [Frame::from_mono(x)];
		fresh.process(&mut buf2, dt, &info);
		assert!(buf[0].left.to_bits() == buf2[0].left.to_bits() && fx.ic1eq.left.to_bits() == fresh.ic1eq.left.to_bits(), "native: same output as a filter created at the new rate");
		return;
	}
	let want = std::f64::consts::PI * 1000.0 * dt;
	unsafe {
		assert!(KV_TAN_N == 1, "one coefficient computation per frame");
		assert!((KV_TAN_ARG - want).abs() <= 1e-9 * want, "g = tan(pi x cutoff / sample rate in force)");
	}
	kani::cover!(old_rate != new_rate, "witness");
	std::mem::forget(fx); std::mem::forget(c); std::mem::forget(m); std::mem::forget(l);
}
