// @append src/parameter.rs
// C17: a parameter linked to a modulator follows the mapping of the modulator's CURRENT value,
// and holds its last value once the modulator is gone.
use crate::modulator::{Modulator, ModulatorId};
use crate::{Easing, Mapping};
use atomic_arena::Arena;

struct KvMod { v: f64 }
impl Modulator for KvMod {
	fn update(&mut self, _dt: f64, _info: &Info) {}
	fn value(&self) -> f64 { self.v }
	fn finished(&self) -> bool { false }
}

// @h prop=C17,C08 tier=quick kind=main timeout=600
// @bounds Parameter<f64> Idle on Value::FromModulator with the identity mapping (0..1 -> 0..1, linear); a real Arena<Box<dyn Modulator>> of capacity 1 whose probe modulator is present with a value k/8 in [0,1], absent, or REPLACED in its slot by a newer modulator (stale id); one update
// @funcs Parameter::update, Parameter::calculate_new_raw_value, Value::raw_value, Info::modulator_value, Mapping::map
// @catches a linked parameter lagging (reading a cached value), not holding its value when the modulator is removed, or following a newer modulator that reuses the slot
#[kani::proof]
#[kani::unwind(3)]
fn c17_linked_parameter_follows_and_holds() {
	let mut mods: Arena<Box<dyn Modulator>> = Arena::new(1);
	let ctrl = mods.controller();
	let key = ctrl.try_reserve().unwrap();
	let mode: u8 = kani::any();
	kani::assume(mode < 3);
	let k: u8 = kani::any();
	kani::assume(k <= 8);
	let v = k as f64 / 8.0;
	match mode {
		0 => { let r = mods.insert_with_key(key, Box::new(KvMod { v }) as Box<dyn Modulator>); std::mem::forget(r); }
		1 => {}
		_ => {
			let r = mods.insert_with_key(key, Box::new(KvMod { v: 0.5 }) as Box<dyn Modulator>); std::mem::forget(r);
			let old = mods.remove(key); std::mem::forget(old);
			let key2 = ctrl.try_reserve().unwrap();
			let r = mods.insert_with_key(key2, Box::new(KvMod { v }) as Box<dyn Modulator>); std::mem::forget(r);
		}
	}
	let clocks: Arena<crate::clock::Clock> = Arena::new(0);
	let listeners: Arena<crate::listener::Listener> = Arena::new(0);
	let info = Info::new(&clocks, &mods, &listeners, None);
	let held: f64 = kani::any();
	kani::assume(held.is_finite());
	let mapping = Mapping { input_range: (0.0, 1.0), output_range: (0.0, 1.0), easing: Easing::Linear };
	let mut p = Parameter::<f64> { state: State::Idle { value: Value::FromModulator { id: ModulatorId(key), mapping } }, raw_value: held, previous_raw_value: held, stagnant: false };
	p.update(0.125, &info);
	if mode == 0 { assert!(p.value() == v, "a linked parameter equals the mapping of the modulator's current value in the same update"); }
	else { assert!(p.value() == held, "and holds its last value once the modulator no longer exists (a newer modulator in the same slot is not followed)"); }
	assert!(p.previous_value() == held);
	kani::cover!(mode == 2, "w:stale-modulator-id");
	kani::cover!(mode == 0 && k == 3, "w:following");
	std::mem::forget(mods); std::mem::forget(clocks); std::mem::forget(listeners);
}
