// @append src/sound/static_sound/data/from_file.rs
// @features symphonia
// @native_features wav
// C18, kira's own share of "loading a file yields exactly its samples / bad files give errors, never a hang or
// invented samples": the packet loop of StaticSoundData::from_boxed_media_source, driven by a contract-stubbed
// Symphonia reader and codec (lib/symphonia_mock.rs). Under Kani, Probe::format and CodecRegistry::make hand out the
// stubs; in a native replay (cfg(kv_native)) the same samples go through the REAL Symphonia WAV reader as an
// independently encoded float WAV file, so that a reported violation is one of the real loader on a real file.

// STATUS: experimental (never run by a registered check). Measured: symbolic execution does not get through the loop.
// Symphonia signals end of stream as Error::IoError(io::Error); kira inspects and DROPS that io::Error. CBMC cannot
// fold the bit-packed io::Error representation to "Simple", so it also explores the Custom(Box<dyn Error>) drop, whose
// destructor is an unresolved function pointer: every drop_in_place in the program becomes a candidate, recursively
// (15 min without leaving symex, with and without -Z restrict-vtable). With the mocks' own drop glue removed
// (ManuallyDrop) and unwind 6 the recursion goes away, but a second obstacle remains (also met in
// c18_stream_decoder.rs): the buffer returned by `dyn Decoder::decode` is a Cow<AudioBuffer<S>> whose variant and
// contents are no longer constants for CBMC, so every loop iteration explores all ten sample formats, both channel
// layouts and the freeing of an owned buffer (900 s without leaving symex). The packet loop is therefore NOT decided;
// seed C18-m3 (frames resized to the header's frame count) is consequently missed. Even the scripts that return an error
// BEFORE the loop (no track, no sample rate) run out of memory: symbolic execution does not prune the loop behind the
// early return. The same early returns ARE decided for the streaming side (SymphoniaDecoder::new, c18_stream_decoder.rs),
// whose remaining code is small.

include!(concat!(env!("KV_HARNESS_DIR"), "/lib/symphonia_mock.rs"));

use symphonia::core::{
	codecs::CodecRegistry as KvCodecRegistry,
	meta::{MetadataLog as KvMetadataLog, MetadataOptions as KvMetadataOptions},
	probe::{Hint as KvHint, Probe as KvProbe, ProbeResult as KvProbeResult, ProbedMetadata as KvProbedMetadata},
};

use crate::Frame;

static mut KV_READER: Option<KvReader> = None;
static mut KV_CODEC: Option<KvCodec> = None;

// the registries are never looked at: both of their methods that kira calls are stubbed
static KV_PROBE_MEM: std::mem::MaybeUninit<KvProbe> = std::mem::MaybeUninit::zeroed();
static KV_CODECS_MEM: std::mem::MaybeUninit<KvCodecRegistry> = std::mem::MaybeUninit::zeroed();
fn kv_get_probe() -> &'static KvProbe { unsafe { &*KV_PROBE_MEM.as_ptr() } }
fn kv_get_codecs() -> &'static KvCodecRegistry { unsafe { &*KV_CODECS_MEM.as_ptr() } }
fn kv_probe_format(_p: &KvProbe, _h: &KvHint, mss: MediaSourceStream, _f: &KvFormatOptions, _m: &KvMetadataOptions) -> KvSyResult<KvProbeResult> {
	std::mem::forget(mss);
	let reader = unsafe { (*std::ptr::addr_of_mut!(KV_READER)).take().unwrap() };
	let metadata = unsafe { std::mem::transmute::<Option<KvMetadataLog>, KvProbedMetadata>(None) };
	Ok(KvProbeResult { format: Box::new(reader), metadata })
}
fn kv_make(_r: &KvCodecRegistry, _p: &KvCodecParameters, _o: &KvDecoderOptions) -> KvSyResult<Box<dyn KvSyDecoder>> {
	let codec = unsafe { (*std::ptr::addr_of_mut!(KV_CODEC)).take().unwrap() };
	Ok(Box::new(codec))
}

fn kv_install(tracks: Vec<KvTrack>, script: [KvStep; KV_MAX_STEPS], stereo: bool, b0: &[f32], b1: &[f32], fail_on: Option<u8>) {
	unsafe {
		*std::ptr::addr_of_mut!(KV_READER) = Some(KvReader::new(tracks, script));
		*std::ptr::addr_of_mut!(KV_CODEC) = Some(KvCodec { params: KvCodecParameters::new(), bufs: std::mem::ManuallyDrop::new([kv_f32_buffer(stereo, b0), kv_f32_buffer(stereo, b1)]), fail_on, decoded: 0, last_packet_ts: u64::MAX });
	}
}

fn kv_load_stubbed() -> Result<StaticSoundData, FromFileError> {
	StaticSoundData::from_media_source(Cursor::new(Vec::<u8>::new()))
}

/// native replays: a media source that fails with a non-EOF I/O error once `fail_at` bytes have been handed out
struct KvFailingSource { inner: Cursor<Vec<u8>>, fail_at: u64 }
impl std::io::Read for KvFailingSource {
	fn read(&mut self, buf: &mut [u8]) -> std::io::Result<usize> {
		let left = self.fail_at.saturating_sub(self.inner.position());
		if left == 0 { return Err(std::io::Error::from(std::io::ErrorKind::PermissionDenied)); }
		let n = buf.len().min(left as usize);
		self.inner.read(&mut buf[..n])
	}
}
impl std::io::Seek for KvFailingSource {
	fn seek(&mut self, pos: std::io::SeekFrom) -> std::io::Result<u64> { self.inner.seek(pos) }
}
impl MediaSource for KvFailingSource {
	fn is_seekable(&self) -> bool { true }
	fn byte_len(&self) -> Option<u64> { Some(self.inner.get_ref().len() as u64) }
}

fn kv_same(f: &Frame, l: f32, r: f32) -> bool { f.left.to_bits() == l.to_bits() && f.right.to_bits() == r.to_bits() }
fn kv_no_nan(s: &[f32]) -> bool { s.iter().all(|x| !x.is_nan()) }

/// `got` holds the first `got.len()` of the expected (interleaved stereo) frames
fn kv_is_prefix_stereo(got: &[Frame], want: &[f32]) -> bool {
	if got.len() * 2 > want.len() { return false; }
	for i in 0..got.len() { if !kv_same(&got[i], want[2 * i], want[2 * i + 1]) { return false; } }
	true
}

// @h prop=C18 tier=experimental kind=main timeout=900
// @bounds a stream of TWO packets (2 + 1 stereo frames) and then end of stream; ANY non-NaN f32 samples; ANY sample rate 1..=u32::MAX. Native replay: the same 3 frames as a float WAV file through the real Symphonia WAV reader
// @funcs StaticSoundData::from_media_source, StaticSoundData::from_boxed_media_source, load_frames_from_buffer_ref, load_frames_from_buffer::<f32>
// @assume Symphonia's probe/reader/codec replaced by contract stubs: Probe::format and CodecRegistry::make return a scripted reader / codec; end of stream is IoError(UnexpectedEof) as documented by Symphonia
// @catches a packet skipped, duplicated, prepended instead of appended or dropped at the end; wrong sample rate; loader that keeps polling after end of stream (hang); channels swapped; frames invented
#[kani::proof]
#[kani::unwind(6)]
#[kani::stub(symphonia::default::get_probe, kv_get_probe)]
#[kani::stub(symphonia::default::get_codecs, kv_get_codecs)]
#[kani::stub(symphonia::core::probe::Probe::format, kv_probe_format)]
#[kani::stub(symphonia::core::codecs::CodecRegistry::make, kv_make)]
fn c18_load_valid_two_packets_stereo() {
	let rate: u32 = kani::any();
	kani::assume(rate >= 1);
	let s: [f32; 6] = kani::any();
	kani::assume(kv_no_nan(&s));
	let r = if cfg!(kv_native) {
		StaticSoundData::from_cursor(Cursor::new(kv_wav_bytes(rate, true, &s, 0)))
	} else {
		kv_install(vec![kv_track(Some(rate), Some(3), 0)], [KvStep::Packet(0), KvStep::Packet(1), KvStep::Eof, KvStep::Eof], true, &s[0..4], &s[4..6], None);
		kv_load_stubbed()
	};
	let d = match r { Ok(d) => d, Err(_) => panic!("a valid stream must load") };
	assert!(d.sample_rate == rate, "sample rate as encoded");
	assert!(d.frames.len() == 3, "exactly the encoded frame count");
	assert!(kv_same(&d.frames[0], s[0], s[1]) && kv_same(&d.frames[1], s[2], s[3]) && kv_same(&d.frames[2], s[4], s[5]), "exactly the encoded samples, in order");
	assert!(d.slice.is_none());
	kani::cover!(s[0] != s[4], "witness");
	std::mem::forget(d);
}

// @h prop=C18 tier=experimental kind=main timeout=900
// @bounds a stream of ONE mono packet of 2 frames, then end of stream; ANY non-NaN samples and rate. Native replay: mono float WAV
// @funcs StaticSoundData::from_boxed_media_source, load_frames_from_buffer::<f32>, Frame::from_mono
// @assume as above
// @catches mono not duplicated to both channels; last packet lost; wrong rate
#[kani::proof]
#[kani::unwind(6)]
#[kani::stub(symphonia::default::get_probe, kv_get_probe)]
#[kani::stub(symphonia::default::get_codecs, kv_get_codecs)]
#[kani::stub(symphonia::core::probe::Probe::format, kv_probe_format)]
#[kani::stub(symphonia::core::codecs::CodecRegistry::make, kv_make)]
fn c18_load_valid_one_packet_mono() {
	let rate: u32 = kani::any();
	kani::assume(rate >= 1);
	let s: [f32; 2] = kani::any();
	kani::assume(kv_no_nan(&s));
	let r = if cfg!(kv_native) {
		StaticSoundData::from_cursor(Cursor::new(kv_wav_bytes(rate, false, &s, 0)))
	} else {
		kv_install(vec![kv_track(Some(rate), Some(2), 0)], [KvStep::Packet(0), KvStep::Eof, KvStep::Eof, KvStep::Eof], false, &s, &[], None);
		kv_load_stubbed()
	};
	let d = match r { Ok(d) => d, Err(_) => panic!("a valid stream must load") };
	assert!(d.sample_rate == rate);
	assert!(d.frames.len() == 2);
	assert!(kv_same(&d.frames[0], s[0], s[0]) && kv_same(&d.frames[1], s[1], s[1]), "mono duplicated to both channels");
	kani::cover!(s[0] != s[1], "witness");
	std::mem::forget(d);
}

// @h prop=C18 tier=experimental kind=main timeout=900
// @bounds one good stereo packet (2 frames), then a NON-EOF I/O error from the reader. Native replay: float WAV that declares 6 frames behind a media source failing with PermissionDenied after the 2nd frame
// @funcs StaticSoundData::from_boxed_media_source
// @assume as above
// @catches panic (unwrap/expect on the packet result); hang; Ok with frames that are not a prefix of the audio (invented or reordered samples); wrong rate on the prefix
#[kani::proof]
#[kani::unwind(6)]
#[kani::stub(symphonia::default::get_probe, kv_get_probe)]
#[kani::stub(symphonia::default::get_codecs, kv_get_codecs)]
#[kani::stub(symphonia::core::probe::Probe::format, kv_probe_format)]
#[kani::stub(symphonia::core::codecs::CodecRegistry::make, kv_make)]
fn c18_load_io_error_midway_is_error_or_prefix() {
	let rate: u32 = kani::any();
	kani::assume(rate >= 1);
	let s: [f32; 4] = kani::any();
	kani::assume(kv_no_nan(&s));
	let r = if cfg!(kv_native) {
		let bytes = kv_wav_bytes(rate, true, &s, 4);
		let fail_at = bytes.len() as u64;
		StaticSoundData::from_media_source(KvFailingSource { inner: Cursor::new(bytes), fail_at })
	} else {
		kv_install(vec![kv_track(Some(rate), Some(6), 0)], [KvStep::Packet(0), KvStep::IoOther, KvStep::Eof, KvStep::Eof], true, &s, &[], None);
		kv_load_stubbed()
	};
	match r {
		Err(e) => std::mem::forget(e),
		Ok(d) => {
			assert!(d.sample_rate == rate);
			assert!(kv_is_prefix_stereo(&d.frames, &s), "the valid prefix of the audio, nothing invented");
			std::mem::forget(d);
		}
	}
	kani::cover!(true, "witness");
}

// @h prop=C18 tier=experimental kind=main timeout=900
// @bounds two stereo packets of which the codec rejects the SECOND as malformed (and, second variant, the reader reports a malformed container after the first). Kani only: a native replay has no counterpart (the driver reports a failure here as not reproducible)
// @funcs StaticSoundData::from_boxed_media_source
// @assume as above
// @catches panic on a decode error; hang (retrying the same packet forever); Ok with anything but a prefix of the audio
#[kani::proof]
#[kani::unwind(6)]
#[kani::stub(symphonia::default::get_probe, kv_get_probe)]
#[kani::stub(symphonia::default::get_codecs, kv_get_codecs)]
#[kani::stub(symphonia::core::probe::Probe::format, kv_probe_format)]
#[kani::stub(symphonia::core::codecs::CodecRegistry::make, kv_make)]
fn c18_load_malformed_packet_is_error_or_prefix() {
	if cfg!(kv_native) { return; }
	let rate: u32 = kani::any();
	kani::assume(rate >= 1);
	let s: [f32; 6] = kani::any();
	kani::assume(kv_no_nan(&s));
	let reader_reports: bool = kani::any();
	if reader_reports {
		kv_install(vec![kv_track(Some(rate), Some(3), 0)], [KvStep::Packet(0), KvStep::Malformed, KvStep::Eof, KvStep::Eof], true, &s[0..4], &s[4..6], None);
	} else {
		kv_install(vec![kv_track(Some(rate), Some(3), 0)], [KvStep::Packet(0), KvStep::Packet(1), KvStep::Eof, KvStep::Eof], true, &s[0..4], &s[4..6], Some(1));
	}
	match kv_load_stubbed() {
		Err(e) => std::mem::forget(e),
		Ok(d) => {
			assert!(d.sample_rate == rate);
			assert!(d.frames.len() <= 2 && kv_is_prefix_stereo(&d.frames, &s), "the valid prefix of the audio, nothing invented");
			std::mem::forget(d);
		}
	}
	kani::cover!(reader_reports, "witness");
}

fn kv_load_incomplete(which: u8) {
	if cfg!(kv_native) { return; }
	let s: [f32; 2] = kani::any();
	let rate: u32 = kani::any();
	let tracks = match which { 0 => vec![], 1 => vec![kv_track(None, Some(1), 0)], _ => vec![kv_track(Some(rate), Some(1), 0)] };
	let first = if which == 2 { KvStep::Malformed } else { KvStep::Packet(0) };
	kv_install(tracks, [first, KvStep::Eof, KvStep::Eof, KvStep::Eof], true, &s, &[], None);
	let r = kv_load_stubbed();
	match which {
		0 => assert!(matches!(r, Err(FromFileError::NoDefaultTrack)), "no track is an error value"),
		1 => assert!(matches!(r, Err(FromFileError::UnknownSampleRate)), "an unknown sample rate is an error value, not an invented rate"),
		_ => assert!(r.is_err(), "a malformed container is an error value (there is no valid prefix here)"),
	}
	kani::cover!(true, "witness");
	std::mem::forget(r);
}

// @h prop=C18 tier=experimental kind=main timeout=900
// @bounds a container without any track (Kani only: a native replay has no counterpart)
// @funcs StaticSoundData::from_media_source, StaticSoundData::from_boxed_media_source
// @assume Symphonia's probe / codec registry replaced by contract stubs: Probe::format returns a scripted reader, CodecRegistry::make a scripted codec
// @catches panic (unwrap on default_track); a sound invented from nothing
#[kani::proof]
#[kani::unwind(6)]
#[kani::stub(symphonia::default::get_probe, kv_get_probe)]
#[kani::stub(symphonia::default::get_codecs, kv_get_codecs)]
#[kani::stub(symphonia::core::probe::Probe::format, kv_probe_format)]
#[kani::stub(symphonia::core::codecs::CodecRegistry::make, kv_make)]
fn c18_load_without_track_is_error() { kv_load_incomplete(0) }

// @h prop=C18 tier=experimental kind=main timeout=900
// @bounds a default track that does not state a sample rate (Kani only)
// @funcs StaticSoundData::from_boxed_media_source
// @assume as above
// @catches panic (unwrap on sample_rate); a sound with an invented sample rate instead of an error
#[kani::proof]
#[kani::unwind(6)]
#[kani::stub(symphonia::default::get_probe, kv_get_probe)]
#[kani::stub(symphonia::default::get_codecs, kv_get_codecs)]
#[kani::stub(symphonia::core::probe::Probe::format, kv_probe_format)]
#[kani::stub(symphonia::core::codecs::CodecRegistry::make, kv_make)]
fn c18_load_without_rate_is_error() { kv_load_incomplete(1) }

// @h prop=C18 tier=experimental kind=main timeout=900
// @bounds a container whose FIRST packet read reports malformed data (Kani only)
// @funcs StaticSoundData::from_boxed_media_source
// @assume as above
// @catches panic on the reader's error; the error swallowed into an (empty) sound; retrying forever
#[kani::proof]
#[kani::unwind(6)]
#[kani::stub(symphonia::default::get_probe, kv_get_probe)]
#[kani::stub(symphonia::default::get_codecs, kv_get_codecs)]
#[kani::stub(symphonia::core::probe::Probe::format, kv_probe_format)]
#[kani::stub(symphonia::core::codecs::CodecRegistry::make, kv_make)]
fn c18_load_malformed_first_packet_is_error() { kv_load_incomplete(2) }
