#[kani::proof]
#[kani::unwind(5)]
fn command_last_write_wins() {
	let (mut w, mut r) = command_writer_and_reader::<u32>();
	let mut last: Option<u32> = None;
	for _ in 0..4 {
		if kani::any() {
			let v: u32 = kani::any();
			w.write(v);
			last = Some(v);
		} else {
			let got = r.read();
			assert!(got == last);
			last = None;
		}
	}
}
