// @append src/sound/streaming/decoder/symphonia.rs
// @features symphonia
// @native_features wav
// C18, kira's own share of "streaming a file yields the same frames as loading it, from any start position and after
// any seek": the glue between the streaming Decoder trait and Symphonia. The SymphoniaDecoder is built directly
// (struct literal) around a scripted reader and codec (lib/symphonia_mock.rs), so no stub is involved and a
// counterexample replays natively as it is. What the DecodeScheduler does with the returned frames and seek positions
// is decided under C09 (c09_scheduler.rs).

include!(concat!(env!("KV_HARNESS_DIR"), "/lib/symphonia_mock.rs"));

fn kv_decoder(reader: *mut KvReader, codec: *mut KvCodec, sample_rate: u32, num_frames: usize, track_id: u32) -> SymphoniaDecoder {
	SymphoniaDecoder {
		format_reader: unsafe { Box::from_raw(reader) } as Box<dyn FormatReader>,
		decoder: unsafe { Box::from_raw(codec) } as Box<dyn symphonia::core::codecs::Decoder>,
		sample_rate,
		num_frames,
		track_id,
	}
}

// The scripted codec only hands out f32 buffers. CBMC does not see the enum variant as a constant once the buffer has
// come back through the `dyn Decoder` call and would explore all ten sample formats (out of memory); this stand-in
// for the dispatcher keeps the one real arm and turns the nine others into failures. The dispatcher itself and the
// conversion are decided on their own in c18_symphonia.rs. Native replays run the real dispatcher.
fn kv_dispatch_f32_only(buffer: &symphonia::core::audio::AudioBufferRef) -> Result<Vec<Frame>, FromFileError> {
	match buffer {
		symphonia::core::audio::AudioBufferRef::F32(b) => crate::sound::symphonia::load_frames_from_buffer(b),
		_ => panic!("the scripted codec produces f32 buffers only"),
	}
}

fn kv_same(f: &Frame, l: f32, r: f32) -> bool { f.left.to_bits() == l.to_bits() && f.right.to_bits() == r.to_bits() }

fn kv_decode_kth(second: bool) {
	let s: [f32; 4] = kani::any();
	let rate: u32 = kani::any();
	let nf: usize = kani::any();
	let mut r = KvReader::new(vec![], [KvStep::Packet(0), KvStep::Packet(1), KvStep::Eof, KvStep::Eof]);
	let mut c = KvCodec { params: KvCodecParameters::new(), bufs: std::mem::ManuallyDrop::new([kv_f32_buffer(true, &s[0..2]), kv_f32_buffer(true, &s[2..4])]), fail_on: None, decoded: 0, last_packet_ts: u64::MAX };
	if second { r.calls = 1; c.decoded = 1; } // the first packet has been consumed already
	let reader = Box::into_raw(Box::new(r));
	let codec = Box::into_raw(Box::new(c));
	let mut d = kv_decoder(reader, codec, rate, nf, 0);
	assert!(crate::sound::streaming::decoder::Decoder::sample_rate(&d) == rate);
	assert!(crate::sound::streaming::decoder::Decoder::num_frames(&d) == nf);
	let a = match crate::sound::streaming::decoder::Decoder::decode(&mut d) { Ok(a) => a, Err(_) => panic!("the packet decodes") };
	let k = if second { 1 } else { 0 };
	assert!(unsafe { (*reader).calls } == k + 1, "exactly one packet read per decode()");
	assert!(unsafe { (*codec).last_packet_ts } == k as u64 && unsafe { (*codec).decoded } == k + 1, "the packet just read is the one decoded, once");
	assert!(a.len() == 1 && kv_same(&a[0], s[2 * k], s[2 * k + 1]), "the chunk holds exactly that packet's frames");
	kani::cover!(s[0].to_bits() != s[2].to_bits(), "witness");
	std::mem::forget(a); std::mem::forget(d);
}

// @h prop=C18 tier=experimental kind=main timeout=900
// @note NOT decided: out of memory in CBMC's propositional reduction (14 GB and 45 GB). The decoded buffer comes back as AudioBufferRef = Cow<AudioBuffer<S>>; kira drops it at the end of decode(), and CBMC does not fold the niche-encoded Cow discriminant to "Borrowed", so it also explores freeing an owned AudioBuffer through a non-constant pointer
// @bounds ONE decode() call on a fresh stream of two one-frame stereo packets of ANY f32 samples; ANY container rate / length
// @funcs <SymphoniaDecoder as Decoder>::decode, load_frames_from_buffer::<f32>, SymphoniaDecoder::sample_rate, SymphoniaDecoder::num_frames
// @assume Symphonia's reader and codec are scripted mocks implementing its FormatReader / Decoder traits; load_frames_from_buffer_ref replaced by its f32 arm (the other nine arms fail the harness if reached)
// @catches decode() skipping or re-reading packets, decoding another packet than the one read, channels swapped, truncated or padded chunks; reported rate / length differing from the container's
#[kani::proof]
#[kani::unwind(4)]
#[kani::stub(crate::sound::symphonia::load_frames_from_buffer_ref, kv_dispatch_f32_only)]
fn c18_stream_decode_first_packet() { kv_decode_kth(false) }

// @h prop=C18 tier=experimental kind=main timeout=900
// @bounds ONE decode() call with the first packet already consumed (any position in a stream is "the next packet")
// @funcs <SymphoniaDecoder as Decoder>::decode
// @assume as above
// @catches as above, for a decoder that is not at the start
#[kani::proof]
#[kani::unwind(4)]
#[kani::stub(crate::sound::symphonia::load_frames_from_buffer_ref, kv_dispatch_f32_only)]
fn c18_stream_decode_second_packet() { kv_decode_kth(true) }

// @h prop=C18 tier=quick kind=main timeout=900
// @bounds ANY requested frame index (usize), ANY landing timestamp reported by the reader (u64 that fits usize), ANY track id; and a failing seek
// @funcs <SymphoniaDecoder as Decoder>::seek
// @assume as above
// @catches seek() reporting the requested index instead of where the reader actually landed (the scheduler would then mis-number every following frame); seeking another track or another timestamp; a seek error turned into a panic or a made-up position
#[kani::proof]
#[kani::unwind(6)]
fn c18_stream_seek_reports_actual_position() {
	let index: usize = kani::any();
	let lands: u64 = kani::any();
	let track: u32 = kani::any();
	let fails: bool = kani::any();
	let mut r = KvReader::new(vec![], [KvStep::Eof; KV_MAX_STEPS]);
	r.seek_lands_on = lands;
	r.seek_fails = fails;
	let reader = Box::into_raw(Box::new(r));
	let codec = Box::into_raw(Box::new(KvCodec { params: KvCodecParameters::new(), bufs: std::mem::ManuallyDrop::new([kv_f32_buffer(true, &[]), kv_f32_buffer(true, &[])]), fail_on: None, decoded: 0, last_packet_ts: u64::MAX }));
	let mut d = kv_decoder(reader, codec, 44100, 100, track);
	let got = crate::sound::streaming::decoder::Decoder::seek(&mut d, index);
	let (req, ts, tr) = unsafe { ((*reader).seek_requests, (*reader).last_seek_ts, (*reader).last_seek_track) };
	assert!(req >= 1 && ts == index as u64 && tr == track, "the reader was asked for the requested frame of the decoder's own track");
	match got {
		Ok(p) => { assert!(!fails, "a failed seek is an error value"); assert!(p as u64 == lands, "the position the reader actually landed on"); }
		Err(e) => { assert!(fails); std::mem::forget(e); }
	}
	kani::cover!(!fails && lands != index as u64, "witness");
	std::mem::forget(d);
}


// ---- SymphoniaDecoder::new: what the decoder reports about the container -------------------------------------------
use symphonia::core::{
	codecs::CodecRegistry as KvCodecRegistry,
	meta::{MetadataLog as KvMetadataLog, MetadataOptions as KvMetadataOptions},
	probe::{Hint as KvHint, Probe as KvProbe, ProbeResult as KvProbeResult, ProbedMetadata as KvProbedMetadata},
};

static mut KV_NEW_READER: Option<KvReader> = None;
// the registries are never looked at: both of their methods that kira calls are stubbed
static KV_PROBE_MEM: std::mem::MaybeUninit<KvProbe> = std::mem::MaybeUninit::zeroed();
static KV_CODECS_MEM: std::mem::MaybeUninit<KvCodecRegistry> = std::mem::MaybeUninit::zeroed();
fn kv_get_probe() -> &'static KvProbe { unsafe { &*KV_PROBE_MEM.as_ptr() } }
fn kv_get_codecs() -> &'static KvCodecRegistry { unsafe { &*KV_CODECS_MEM.as_ptr() } }
fn kv_probe_format(_p: &KvProbe, _h: &KvHint, mss: MediaSourceStream, _f: &KvFormatOptions, _m: &KvMetadataOptions) -> KvSyResult<KvProbeResult> {
	std::mem::forget(mss);
	let reader = unsafe { (*std::ptr::addr_of_mut!(KV_NEW_READER)).take().unwrap() };
	let metadata = unsafe { std::mem::transmute::<Option<KvMetadataLog>, KvProbedMetadata>(None) };
	Ok(KvProbeResult { format: Box::new(reader), metadata })
}
fn kv_make(_r: &KvCodecRegistry, _p: &KvCodecParameters, _o: &KvDecoderOptions) -> KvSyResult<Box<dyn symphonia::core::codecs::Decoder>> {
	Ok(Box::new(KvCodec { params: KvCodecParameters::new(), bufs: std::mem::ManuallyDrop::new([kv_f32_buffer(true, &[]), kv_f32_buffer(true, &[])]), fail_on: None, decoded: 0, last_packet_ts: u64::MAX }))
}

// @h prop=C18 tier=quick kind=main timeout=900
// @bounds a container whose default track states ANY sample rate, ANY frame count (u64) and ANY track id. Native replay: a float WAV file with that rate and (frame count mod 4) frames through the real Symphonia WAV reader
// @funcs SymphoniaDecoder::new, SymphoniaDecoder::sample_rate, SymphoniaDecoder::num_frames
// @assume Symphonia's probe / codec registry replaced by contract stubs: Probe::format returns a scripted reader with one track, CodecRegistry::make a scripted codec
// @catches the streaming decoder reporting another sample rate or length than the container states (a streamed file would then differ in pitch / duration from the loaded one); seeking a track other than the default one later on
#[kani::proof]
#[kani::unwind(4)]
#[kani::stub(symphonia::default::get_probe, kv_get_probe)]
#[kani::stub(symphonia::default::get_codecs, kv_get_codecs)]
#[kani::stub(symphonia::core::probe::Probe::format, kv_probe_format)]
#[kani::stub(symphonia::core::codecs::CodecRegistry::make, kv_make)]
fn c18_stream_new_reports_container_rate_and_length() {
	let rate: u32 = kani::any();
	let frames: u64 = kani::any();
	let id: u32 = kani::any();
	kani::assume(rate >= 1);
	if cfg!(kv_native) {
		let n = (frames % 4) as usize;
		let samples = [0.25f32, -0.5, 0.75, -1.0];
		let d = match SymphoniaDecoder::new(Box::new(std::io::Cursor::new(kv_wav_bytes(rate, false, &samples[..n], 0)))) { Ok(d) => d, Err(_) => panic!("a valid file opens") };
		assert!(d.sample_rate == rate && d.num_frames == n, "native: rate and length as encoded in the file");
		return;
	}
	unsafe { *std::ptr::addr_of_mut!(KV_NEW_READER) = Some(KvReader::new(vec![kv_track(Some(rate), Some(frames), id)], [KvStep::Eof; KV_MAX_STEPS])); }
	let d = match SymphoniaDecoder::new(Box::new(std::io::Cursor::new(Vec::<u8>::new()))) { Ok(d) => d, Err(_) => panic!("a container with a complete default track opens") };
	assert!(crate::sound::streaming::decoder::Decoder::sample_rate(&d) == rate, "sample rate as stated by the container");
	assert!(crate::sound::streaming::decoder::Decoder::num_frames(&d) as u64 == frames, "length as stated by the container");
	assert!(d.track_id == id, "the decoder works on the default track");
	kani::cover!(rate == 48000 && frames == 3, "witness");
	std::mem::forget(d);
}

fn kv_new_incomplete(which: u8) {
	if cfg!(kv_native) { return; }
	let rate: u32 = kani::any();
	let tracks = match which {
		0 => vec![],
		1 => vec![kv_track(None, Some(3), 0)],
		_ => vec![kv_track(Some(rate), None, 0)],
	};
	unsafe { *std::ptr::addr_of_mut!(KV_NEW_READER) = Some(KvReader::new(tracks, [KvStep::Eof; KV_MAX_STEPS])); }
	let r = SymphoniaDecoder::new(Box::new(std::io::Cursor::new(Vec::<u8>::new())));
	assert!(r.is_err(), "an error value: neither a panic nor a decoder with an invented rate or length");
	kani::cover!(true, "witness");
	std::mem::forget(r);
}

// @h prop=C18 tier=quick kind=main timeout=900
// @bounds a container without tracks (Kani only: a native replay has no counterpart)
// @funcs SymphoniaDecoder::new
// @assume as above
// @catches unwrap/expect on the default track
#[kani::proof]
#[kani::unwind(4)]
#[kani::stub(symphonia::default::get_probe, kv_get_probe)]
#[kani::stub(symphonia::default::get_codecs, kv_get_codecs)]
#[kani::stub(symphonia::core::probe::Probe::format, kv_probe_format)]
#[kani::stub(symphonia::core::codecs::CodecRegistry::make, kv_make)]
fn c18_stream_new_without_track_is_error() { kv_new_incomplete(0) }

// @h prop=C18 tier=quick kind=main timeout=900
// @bounds a default track that does not state its sample rate; one that does not state its frame count (Kani only)
// @funcs SymphoniaDecoder::new
// @assume as above
// @catches unwrap on sample_rate / n_frames; a default (0, 44100 ...) substituted for the missing value
#[kani::proof]
#[kani::unwind(4)]
#[kani::stub(symphonia::default::get_probe, kv_get_probe)]
#[kani::stub(symphonia::default::get_codecs, kv_get_codecs)]
#[kani::stub(symphonia::core::probe::Probe::format, kv_probe_format)]
#[kani::stub(symphonia::core::codecs::CodecRegistry::make, kv_make)]
fn c18_stream_new_without_rate_is_error() { kv_new_incomplete(1) }

// @h prop=C18 tier=quick kind=main timeout=900
// @bounds a default track that does not state its frame count (Kani only)
// @funcs SymphoniaDecoder::new
// @assume as above
#[kani::proof]
#[kani::unwind(4)]
#[kani::stub(symphonia::default::get_probe, kv_get_probe)]
#[kani::stub(symphonia::default::get_codecs, kv_get_codecs)]
#[kani::stub(symphonia::core::probe::Probe::format, kv_probe_format)]
#[kani::stub(symphonia::core::codecs::CodecRegistry::make, kv_make)]
fn c18_stream_new_without_length_is_error() { kv_new_incomplete(2) }
