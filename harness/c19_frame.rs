// @append src/frame.rs
// C19 (pan law) and C04 (Hermite interpolation end points).

// @h prop=C19 tier=quick kind=main
// @bounds every f32 bit pattern of the panning value; every non-NaN frame
// @funcs Frame::panned
// @catches centre shortcut removed/altered; clamp dropped; hard-left/right leaking into the other channel; pan constant changed
#[kani::proof]
#[kani::unwind(2)]
fn c19_panned_all_f32() {
	let l: f32 = kani::any();
	let r: f32 = kani::any();
	let p: f32 = kani::any();
	kani::assume(l.is_finite() && r.is_finite());
	let f = Frame::new(l, r);
	let o = f.panned(Panning(p));
	if p == 0.0 {
		assert!(o.left.to_bits() == l.to_bits() && o.right.to_bits() == r.to_bits(), "centre keeps the frame bit-exactly");
	}
	if p <= -1.0 {
		assert!(o.left == l * 1.0f32 * std::f32::consts::SQRT_2 && o.right == 0.0, "hard left");
		let h = f.panned(Panning(-1.0));
		assert!(o.left.to_bits() == h.left.to_bits() && o.right.to_bits() == h.right.to_bits(), "clamped below -1");
	}
	if p >= 1.0 {
		assert!(o.right == r * 1.0f32 * std::f32::consts::SQRT_2 && o.left == 0.0, "hard right");
		let h = f.panned(Panning(1.0));
		assert!(o.left.to_bits() == h.left.to_bits() && o.right.to_bits() == h.right.to_bits(), "clamped above 1");
	}
	if !p.is_nan() {
		assert!(!o.left.is_nan() && !o.right.is_nan(), "finite frame, non-NaN panning: no NaN");
	}
	kani::cover!(p < -1.0, "w:below-range");
	kani::cover!(p > 0.0 && p < 1.0, "w:partial-right");
	kani::cover!(p.is_nan(), "w:nan-no-panic");
}

// @h prop=C19 tier=quick kind=main
// @bounds every non-NaN f32 panning; centred unit signal (1,1)
// @funcs Frame::panned
// @catches linear pan law instead of equal-power; missing sqrt(2) normalisation
#[kani::proof]
#[kani::unwind(2)]
fn c19_panned_keeps_total_power() {
	let p: f32 = kani::any();
	kani::assume(!p.is_nan());
	let o = Frame::new(1.0, 1.0).panned(Panning(p));
	let power = o.left * o.left + o.right * o.right;
	assert!(power >= 2.0 - 1.0e-5 && power <= 2.0 + 1.0e-5, "L^2 + R^2 of a centred unit signal stays 2");
	assert!(o.left >= 0.0 && o.right >= 0.0 && o.left <= 1.4142137 && o.right <= 1.4142137);
	kani::cover!(p > 0.25 && p < 0.75, "w:mid-right");
}

// @h prop=C19 tier=quick kind=main
// @bounds non-NaN pannings p1 <= p2; unit signal: right gain non-decreasing, left gain non-increasing
// @funcs Frame::panned
#[kani::proof]
#[kani::unwind(2)]
fn c19_panned_monotone() {
	let p1: f32 = kani::any();
	let p2: f32 = kani::any();
	kani::assume(!p1.is_nan() && !p2.is_nan() && p1 <= p2);
	kani::assume(p1 != 0.0 && p2 != 0.0);
	let a = Frame::new(1.0, 1.0).panned(Panning(p1));
	let b = Frame::new(1.0, 1.0).panned(Panning(p2));
	assert!(a.right <= b.right && a.left >= b.left);
	kani::cover!(p1 < 0.0 && p2 > 0.0, "w:across-centre");
}

// @h prop=C04 tier=quick kind=main
// @bounds small-integer frames |v| <= 8 (all arithmetic exact in f32); fraction 0 and 1
// @funcs interpolate_frame
// @catches coefficient changed in the Hermite x-form (c1/c2/c3), argument order swapped
#[kani::proof]
#[kani::unwind(2)]
fn c04_interpolate_frame_endpoints() {
	let v: [i8; 4] = kani::any();
	kani::assume(v[0].abs() <= 8 && v[1].abs() <= 8 && v[2].abs() <= 8 && v[3].abs() <= 8);
	let f = |i: usize| Frame::new(v[i] as f32, -(v[i] as f32));
	let at0 = interpolate_frame(f(0), f(1), f(2), f(3), 0.0);
	let at1 = interpolate_frame(f(0), f(1), f(2), f(3), 1.0);
	assert!(at0 == f(1), "fraction 0 returns the current frame");
	assert!(at1 == f(2), "fraction 1 returns the next frame");
	// midpoint of the cubic: (-p + 9c + 9n1 - n2) / 16
	let mid = interpolate_frame(f(0), f(1), f(2), f(3), 0.5);
	let want = (-(v[0] as f32) + 9.0 * v[1] as f32 + 9.0 * v[2] as f32 - v[3] as f32) / 16.0;
	assert!(mid.left == want && mid.right == -want, "fraction 1/2 is the 4-point Hermite midpoint");
	kani::cover!(v[0] != v[1] && v[1] != v[2] && v[2] != v[3], "w:distinct");
}

// @h prop=C04,C01 tier=quick kind=main
// @bounds finite frames |v| <= 2^20, fraction in [0,1]
// @funcs interpolate_frame
#[kani::proof]
#[kani::unwind(2)]
fn c04_interpolate_frame_finite() {
	let v: [f32; 4] = kani::any();
	let x: f32 = kani::any();
	kani::assume(x >= 0.0 && x <= 1.0);
	kani::assume(v[0].abs() <= 1048576.0 && v[1].abs() <= 1048576.0 && v[2].abs() <= 1048576.0 && v[3].abs() <= 1048576.0);
	let o = interpolate_frame(Frame::from_mono(v[0]), Frame::from_mono(v[1]), Frame::from_mono(v[2]), Frame::from_mono(v[3]), x);
	assert!(o.left.is_finite() && o.right.is_finite());
	kani::cover!(x > 0.0 && x < 1.0, "w:inside");
}
