// @append src/tween/tweenable.rs
// C06: the arithmetic kernels behind "every tweenable type" (the Parameter step harnesses replace
// them by uninterpreted functions; here they are checked on their own).

fn kv_dur_body(a_ms: u64, b_ms: u64) {
	let a = Duration::from_millis(a_ms);
	let b = Duration::from_millis(b_ms);
	let t: f64 = kani::any();
	kani::assume(t >= 0.0 && t <= 1.0);
	let v = <Duration as Tweenable>::interpolate(a, b, t);
	let (lo, hi) = if a <= b { (a, b) } else { (b, a) };
	let ns = Duration::from_nanos(2);
	assert!(v + ns >= lo && v <= hi + ns, "an interpolated duration never leaves the interval between start and target");
	if t == 0.0 { assert!(v == a, "amount 0 yields the start"); }
	if t == 1.0 { assert!(v + ns >= b && v <= b + ns, "amount 1 yields the target"); }
	if t == 0.5 { let mid = (a + b) / 2; assert!(v + ns >= mid && v <= mid + ns, "amount 1/2 yields the midpoint"); }
	kani::cover!(t > 0.0 && t < 1.0, "w:inside");
}

// @h prop=C06 tier=quick kind=main
// @bounds Duration 100 ms -> 20 ms (decreasing), every amount in [0,1] (all f64 bit patterns)
// @funcs <Duration as Tweenable>::interpolate
// @catches interpolation that moves away from a SHORTER target (abs_diff), or truncation below zero
#[kani::proof]
#[kani::unwind(2)]
fn c06_duration_interpolate_decreasing() { kv_dur_body(100, 20); }

// @h prop=C06 tier=quick kind=main
// @bounds Duration 0 -> 1 s (increasing), every amount in [0,1]
// @funcs <Duration as Tweenable>::interpolate
#[kani::proof]
#[kani::unwind(2)]
fn c06_duration_interpolate_increasing() { kv_dur_body(0, 1000); }

// @h prop=C06 tier=quick kind=main
// @bounds f64 and f32 kernels: amount 0 with finite operands of finite difference (all bit patterns)
// @funcs <f64 as Tweenable>::interpolate, <f32 as Tweenable>::interpolate
// @catches swapped operands, amount applied to the wrong term
#[kani::proof]
#[kani::unwind(2)]
fn c06_float_interpolate_special_amounts() {
	let a: f64 = kani::any();
	let b: f64 = kani::any();
	kani::assume(a.is_finite() && b.is_finite() && (b - a).is_finite());
	assert!(<f64 as Tweenable>::interpolate(a, b, 0.0) == a);
	let c: f32 = kani::any();
	let d: f32 = kani::any();
	kani::assume(c.is_finite() && d.is_finite() && (d - c).is_finite());
	assert!(<f32 as Tweenable>::interpolate(c, d, 0.0) == c);
	// exactly on target when the difference is exact (small integers, the fade end points)
	assert!(<f32 as Tweenable>::interpolate(-60.0, 0.0, 1.0) == 0.0 && <f32 as Tweenable>::interpolate(0.0, -60.0, 1.0) == -60.0);
	kani::cover!(a > b, "w:descending");
}

// @h prop=C06 tier=quick kind=main
// @bounds f32 kernel, operands |v| <= 200 (the decibel / panning / mix ranges), amount in [0,1]: moves from a TOWARDS b: sign of (v - a) agrees with sign of (b - a)
// @funcs <f32 as Tweenable>::interpolate
// @catches direction reversed for descending tweens
#[kani::proof]
#[kani::unwind(2)]
fn c06_f32_interpolate_direction() {
	let a: f32 = kani::any();
	let b: f32 = kani::any();
	let t: f64 = kani::any();
	kani::assume(a.is_finite() && b.is_finite() && a.abs() <= 200.0 && b.abs() <= 200.0);
	kani::assume(t >= 0.0 && t <= 1.0);
	let v = <f32 as Tweenable>::interpolate(a, b, t);
	if b >= a { assert!(v >= a); } else { assert!(v <= a); }
	kani::cover!(b < a && t > 0.0, "w:descending");
}
