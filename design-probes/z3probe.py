import time
from z3 import *
F=Float64(); RNE=RNE(); RTZ=RTZ(); RTP=RTP()
def fract(x): return fpSub(RNE, x, fpRoundToIntegral(RTZ, x))
def trunc(x): return fpRoundToIntegral(RTZ, x)
def ceil(x): return fpRoundToIntegral(RTP, x)
def fmod1(x): # x % 1.0 for finite x : x - trunc(x), exact
    return fpSub(RNE, x, trunc(x))
def f2u64_sat(x): # Rust `as u64`: saturating, NaN->0
    big = FPVal(18446744073709551616.0, F)
    return If(fpIsNaN(x), BitVecVal(0,64), If(fpLEQ(x, FPVal(0.0,F)), BitVecVal(0,64), If(fpGEQ(x,big), BitVecVal(2**64-1,64), fpToUBV(RTZ, x, BitVecSort(64)))))
def sat_sub(a,b): return If(ULT(a,b), BitVecVal(0,64), a-b)
def sub_nonneg(ticks, frac, x):
    fraction = fmod1(fpAdd(RNE, fract(fpSub(RNE, frac, x)), FPVal(1.0,F)))
    t = sat_sub(ticks, f2u64_sat(ceil(fpSub(RNE, x, frac))))
    return t, fraction
def add_nonneg(ticks, frac, x):
    s = fpAdd(RNE, frac, x)
    return ticks + f2u64_sat(trunc(s)), fract(s)
ticks=BitVec('ticks',64); frac=FP('frac',F); x=FP('x',F)
s=Solver()
s.add(ULE(ticks, BitVecVal(1<<40,64)), fpGEQ(frac, FPVal(0.0,F)), fpLT(frac, FPVal(1.0,F)))
s.add(fpGT(x, FPVal(0.0,F)), fpLEQ(x, FPVal(1e6,F)), Not(fpIsNegative(x)))
t1,f1=add_nonneg(ticks,frac,x)
t2,f2=sub_nonneg(t1,f1,x)
orig=fpAdd(RNE, fpUnsignedToFP(RNE,ticks,F), frac)
back=fpAdd(RNE, fpUnsignedToFP(RNE,t2,F), f2)
s.add(fpGT(fpAbs(fpSub(RNE,orig,back)), FPVal(0.5,F)))
t0=time.time(); r=s.check(); print(r, time.time()-t0)
if r==sat:
    m=s.model(); print(m[ticks], m[frac], m[x], m.eval(t1), m.eval(f1), m.eval(t2), m.eval(f2))
# fraction in range for sub
s2=Solver()
s2.add(fpGEQ(frac, FPVal(0.0,F)), fpLT(frac, FPVal(1.0,F)), fpGEQ(x, FPVal(0.0,F)), fpLEQ(x, FPVal(1e15,F)), Not(fpIsNegative(x)))
t2,f2=sub_nonneg(ticks,frac,x)
s2.add(Not(And(fpGEQ(f2, FPVal(0.0,F)), fpLT(f2, FPVal(1.0,F)))))
t0=time.time(); r=s2.check(); print('sub fraction range:', r, time.time()-t0)
