use crate::backend::resources::mixer::Mixer;
use crate::track::MainTrackBuilder;
use crate::sound::Sound as SoundTrait;

struct ProbeSound { vals: [f32; 4], pos: usize, calls: usize }
impl SoundTrait for ProbeSound {
	fn process(&mut self, out: &mut [Frame], _dt: f64, _info: &Info) {
		self.calls += 1;
		for f in out.iter_mut() {
			*f = Frame::from_mono(self.vals[self.pos % 4]);
			self.pos += 1;
		}
	}
	fn finished(&self) -> bool { false }
}

fn small_f32() -> f32 { let v: i8 = kani::any(); kani::assume(v >= -4 && v <= 4); v as f32 }

#[kani::proof]
#[kani::unwind(2)]
fn mixer_sum_two_levels() {
	let (mut mixer, sub_ctrl, send_ctrl, main_handle) = Mixer::new(1, 0, 48000, 1, MainTrackBuilder::new().sound_capacity(1));
	let (mut sounds, sound_ctrl) = ResourceStorage::new(1);
	let (sub_tracks, sub_ctrl2) = ResourceStorage::new(0);
	let (_w, command_readers) = command_writers_and_readers();
	let a = [small_f32(), small_f32(), small_f32(), small_f32()];
	let b = [small_f32(), small_f32(), small_f32(), small_f32()];
	sounds.resources.insert(Box::new(ProbeSound { vals: a, pos: 0, calls: 0 }) as Box<dyn SoundTrait>).unwrap();
	let track = Track {
		shared: Arc::new(TrackShared::new()),
		command_readers,
		volume: Parameter::new(crate::Value::Fixed(Decibels::IDENTITY), Decibels::IDENTITY),
		sounds,
		sub_tracks,
		effects: vec![],
		sends: vec![],
		persist_until_sounds_finish: false,
		spatial_data: None,
		playback_state_manager: PlaybackStateManager::new(None),
		temp_buffer: vec![Frame::ZERO; 1],
		internal_buffer_size: 1,
	};
	mixer.verif_insert_sub_track(track);
	mixer.verif_insert_main_sound(Box::new(ProbeSound { vals: b, pos: 0, calls: 0 }));
	let clocks = crate::backend::resources::clocks::Clocks::new(0).0;
	let modulators = crate::backend::resources::modulators::Modulators::new(0).0;
	let listeners = crate::backend::resources::listeners::Listeners::new(0).0;
	let mut out = [Frame::ZERO; 1];
	mixer.process(&mut out, 1.0 / 48000.0, &clocks, &modulators, &listeners);
	assert!(out[0] == Frame::from_mono(a[0] + b[0]));
	let mut out2 = [Frame::ZERO; 1];
	mixer.process(&mut out2, 1.0 / 48000.0, &clocks, &modulators, &listeners);
	assert!(out2[0] == Frame::from_mono(a[1] + b[1]));
	std::mem::forget(mixer); std::mem::forget(sub_ctrl); std::mem::forget(send_ctrl); std::mem::forget(main_handle); std::mem::forget(sound_ctrl); std::mem::forget(sub_ctrl2); std::mem::forget(clocks); std::mem::forget(modulators); std::mem::forget(listeners); std::mem::forget(_w);
}

#[kani::proof]
#[kani::unwind(3)]
fn track_single_level_sum() {
	let (mut sounds, sound_ctrl) = ResourceStorage::new(2);
	let (sub_tracks, sub_ctrl2) = ResourceStorage::new(0);
	let (mut send_tracks, send_ctrl) = ResourceStorage::<SendTrack>::new(0);
	let (_w, command_readers) = command_writers_and_readers();
	let a = [small_f32(), small_f32(), small_f32(), small_f32()];
	let b = [small_f32(), small_f32(), small_f32(), small_f32()];
	sounds.resources.insert(Box::new(ProbeSound { vals: a, pos: 0, calls: 0 }) as Box<dyn SoundTrait>).unwrap();
	sounds.resources.insert(Box::new(ProbeSound { vals: b, pos: 0, calls: 0 }) as Box<dyn SoundTrait>).unwrap();
	let silent: bool = kani::any();
	let mut track = Track {
		shared: Arc::new(TrackShared::new()),
		command_readers,
		volume: Parameter::new(crate::Value::Fixed(if silent { Decibels::SILENCE } else { Decibels::IDENTITY }), Decibels::IDENTITY),
		sounds,
		sub_tracks,
		effects: vec![],
		sends: vec![],
		persist_until_sounds_finish: false,
		spatial_data: None,
		playback_state_manager: PlaybackStateManager::new(None),
		temp_buffer: vec![Frame::ZERO; 2],
		internal_buffer_size: 2,
	};
	let clocks = crate::backend::resources::clocks::Clocks::new(0).0;
	let modulators = crate::backend::resources::modulators::Modulators::new(0).0;
	let listeners = crate::backend::resources::listeners::Listeners::new(0).0;
	let mut out = [Frame::ZERO; 2];
	track.process(&mut out, 1.0 / 48000.0, &clocks, &modulators, &listeners, None, &mut send_tracks);
	let g = if silent { 0.0 } else { 1.0 };
	assert!(out[0] == Frame::from_mono((a[0] + b[0]) * g));
	assert!(out[1] == Frame::from_mono((a[1] + b[1]) * g));
	assert!(track.temp_buffer[0] == Frame::ZERO && track.temp_buffer[1] == Frame::ZERO);
	std::mem::forget(track); std::mem::forget(sound_ctrl); std::mem::forget(sub_ctrl2); std::mem::forget(send_ctrl); std::mem::forget(send_tracks); std::mem::forget(clocks); std::mem::forget(modulators); std::mem::forget(listeners); std::mem::forget(_w);
}

#[kani::proof]
fn glam_quat_under_kani() {
	let x: f32 = kani::any();
	kani::assume(x.is_finite() && x.abs() <= 100.0);
	let q = Quat::from_xyzw(0.0, 0.0, 0.0, 1.0);
	let v = q * Vec3::new(x, 0.0, 0.0);
	assert!(v.x == x && v.y == 0.0 && v.z == 0.0);
	let (l, r) = listener_ear_positions(Vec3::ZERO, q);
	assert!(l.x == -0.1 && r.x == 0.1);
	let d = (Vec3::new(x, 0.0, 0.0) - Vec3::ZERO).length();
	assert!(d == x.abs());
	let n = Vec3::ZERO.normalize_or_zero();
	assert!(n == Vec3::ZERO);
}
