// @append src/backend/resources.rs
// helper (no harness): put a resource straight into a storage's arena as if the audio thread had picked it up
impl<T> SelfReferentialResourceStorage<T> {
	pub(crate) fn kv_place(&mut self, resource: T) -> Key {
		let key = self.resources.controller().try_reserve().unwrap();
		let r = self.resources.insert_with_key(key, resource);
		std::mem::forget(r);
		self.keys.push(key);
		key
	}
}
impl<T> ResourceStorage<T> {
	pub(crate) fn kv_place(&mut self, resource: T) -> Key {
		let key = self.resources.controller().try_reserve().unwrap();
		let r = self.resources.insert_with_key(key, resource);
		std::mem::forget(r);
		key
	}
}
impl<T> SelfReferentialResourceStorage<T> {
	pub(crate) fn kv_push_key(&mut self, key: Key) { self.keys.push(key); }
}
