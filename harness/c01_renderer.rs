// @append src/backend/renderer.rs
// @requires kv_clock_force.rs
// @requires kv_main_track_peek.rs
// @requires kv_mixer_peek.rs
// @requires kv_storage_place.rs
// @requires kv_send_track_peek.rs
// C01 (final stage), C02/C11 (chunking), C05 (clock advance per chunk) on the REAL Renderer built
// by create_resources(), with a probe Sound (public trait) on the main track.
use crate::backend::resources::create_resources;
use crate::clock::{Clock, ClockId, ClockSpeed, State as ClockState};
use crate::info::Info;
use crate::manager::Capacities;
use crate::sound::Sound;
use crate::track::MainTrackBuilder;
use crate::Value;

/// emits a fixed script of frames, one per requested frame, and logs how it was asked
struct KvProbe { script: [Frame; 6], pos: usize, calls: usize, max_slice: usize, total: usize }
static mut KV_LOG: (usize, usize, usize) = (0, 0, 0); // (calls, max slice length, frames asked)
impl Sound for KvProbe {
	fn process(&mut self, out: &mut [Frame], _dt: f64, _info: &Info) {
		self.calls += 1;
		if out.len() > self.max_slice { self.max_slice = out.len(); }
		let mut i = 0;
		while i < out.len() { out[i] = if self.pos < 6 { self.script[self.pos] } else { Frame::ZERO }; self.pos += 1; i += 1; }
		self.total += out.len();
		unsafe { KV_LOG = (self.calls, self.max_slice, self.total); }
	}
	fn finished(&self) -> bool { false }
}

fn kv_renderer(buffer: usize, clocks: usize) -> (Renderer, crate::backend::resources::ResourceControllers) {
	let (resources, controllers) = create_resources(
		Capacities { sub_track_capacity: 0, send_track_capacity: 0, clock_capacity: clocks, modulator_capacity: 0, listener_capacity: 0 },
		MainTrackBuilder::new().sound_capacity(1),
		4,
		buffer,
	);
	(Renderer::new(Arc::new(RendererShared::new(4)), buffer, resources), controllers)
}

fn kv_grid64() -> f32 { let k: i8 = kani::any(); k as f32 / 64.0 }
fn kv_any_non_nan() -> f32 { let v: f32 = kani::any(); kani::assume(!v.is_nan()); v }

fn kv_final_stage_body<const NCH: usize, const LEN: usize>(buffer: usize) {
	// LEN = NCH * frames
	let frames = LEN / NCH;
	let (mut r, mut c) = kv_renderer(buffer, 0);
	let mut script = [Frame::ZERO; 6];
	let mut i = 0;
	// mono: the oracle repeats an f32 addition, which CBMC only decides on a grid (k/64, |k| <= 128: range [-2,2])
	while i < frames { script[i] = if NCH == 1 { Frame::new(kv_grid64(), kv_grid64()) } else { Frame::new(kv_any_non_nan(), kv_any_non_nan()) }; i += 1; }
	r.resources.mixer.kv_main_track().kv_place_sound(Box::new(KvProbe { script, pos: 0, calls: 0, max_slice: 0, total: 0 }) as Box<dyn Sound>);
	let mut out = [7.0f32; LEN];
	r.process(&mut out, NCH as u16);
	let mut f = 0;
	while f < frames {
		let l = script[f].left.clamp(-1.0, 1.0);
		let rr = script[f].right.clamp(-1.0, 1.0);
		if NCH == 1 {
			assert!(out[f] == (l + rr) / 2.0, "one channel: the mean of (clamped) left and right");
		} else {
			assert!(out[f * NCH] == l && out[f * NCH + 1] == rr, "channels 0 and 1 carry the clamped frame, in order, every frame once");
			let mut ch = 2;
			while ch < NCH { assert!(out[f * NCH + ch] == 0.0, "extra channels are silent"); ch += 1; }
		}
		let mut ch = 0;
		while ch < NCH { let s = out[f * NCH + ch]; assert!(s.is_finite() && s >= -1.0 && s <= 1.0, "every sample written is a finite number in [-1, 1]"); ch += 1; }
		f += 1;
	}
	let (calls, max_slice, total) = unsafe { KV_LOG };
	assert!(total == frames, "the sound is asked for every output frame exactly once");
	assert!(max_slice <= buffer, "in slices no longer than the internal buffer size");
	assert!(calls == (frames + buffer - 1) / buffer);
	assert!(r.temp_buffer[0] == Frame::ZERO && r.temp_buffer[buffer - 1] == Frame::ZERO, "the bus is cleared after every chunk");
	kani::cover!(NCH == 1 || script[0].left == f32::INFINITY, "w:infinite-bus-sample");
	kani::cover!(script[0].left > 1.0 && script[0].left < 2.0, "w:over-range");
	std::mem::forget(r); std::mem::forget(c);
}

// @h prop=C01,C02,C11 tier=quick kind=main timeout=600
// @bounds real Renderer::process, 2 output channels, internal buffer 2, device callback of 3 frames (a full chunk and a remainder chunk); arbitrary non-NaN f32 bus samples (incl. +-inf, denormals, out of range)
// @funcs Renderer::{new,on_start_processing,process,process_chunk}, Mixer::{on_start_processing,process}, MainTrack::{on_start_processing,process}, ResourceStorage::remove_and_add
// @catches clamp dropped or applied to one channel only; remainder chunk rendered with the full buffer length (sound advanced past frames never output) or indexed with the full size; bus not cleared; frames written out of order
#[kani::proof]
#[kani::unwind(5)]
fn c01_renderer_final_stage_stereo() { kv_final_stage_body::<2, 6>(2); }

// @h prop=C01 tier=quick kind=main timeout=600
// @bounds ONE output channel (mono fold-down), buffer 2, callback 3 frames; bus samples on the grid k/64, |k| <= 128 (range [-2,2], so clamping is exercised)
// @funcs Renderer::process_chunk
// @catches mono fold-down before the clamp, or summing without halving
#[kani::proof]
#[kani::unwind(5)]
fn c01_renderer_final_stage_mono() { kv_final_stage_body::<1, 3>(2); }

// @h prop=C01 tier=quick kind=main timeout=600
// @bounds as above with 4 output channels, buffer 2, callback 3 frames
// @funcs Renderer::process_chunk
// @catches channels beyond the second left unwritten (device garbage) or `skip(2)` off by one
#[kani::proof]
#[kani::unwind(5)]
fn c01_renderer_final_stage_four_channels() { kv_final_stage_body::<4, 12>(2); }

// @h prop=C01 tier=thorough kind=main timeout=1700
// @bounds 8 output channels, buffer 1, callback 2 frames
// @funcs Renderer::process_chunk
#[kani::proof]
#[kani::unwind(18)]
fn c01_renderer_final_stage_eight_channels() { kv_final_stage_body::<8, 16>(1); }

fn kv_clock_advance_body(frames: usize) {
	let (mut r, c) = kv_renderer(2, 1);
	let fast: bool = kani::any();
	let speed = if fast { 4.0 } else { 2.0 };
	let mut clock = Clock::without_handle(Value::Fixed(ClockSpeed::TicksPerSecond(speed)));
	clock.kv_force(true, 10, 0.0);
	let key = r.resources.clocks.0.kv_place(clock);
	let mut out = [0.0f32; 10];
	r.process(&mut out[..frames * 2], 2);
	// ticks elapsed = speed * frames / 4 : with speed 2 -> frames/2, with speed 4 -> frames
	let half_ticks = if fast { 2 * frames } else { frames }; // elapsed time in half ticks
	let st = r.resources.clocks.0.resources.get(key).unwrap().state();
	assert!(st == ClockState::Started { ticks: 10 + (half_ticks / 2) as u64, fractional_position: if half_ticks % 2 == 1 { 0.5 } else { 0.0 } },
		"a clock advances by exactly speed x elapsed audio time regardless of how the callback is cut into chunks");
	kani::cover!(fast, "w:fast");
	std::mem::forget(r); std::mem::forget(c);
}

// @h prop=C05,C11 tier=quick kind=main timeout=600
// @bounds real Renderer with one real Clock (speed 2 or 4 ticks/s, running) at 4 Hz, internal buffer 2; device callback of 3 frames (a full chunk plus a remainder chunk)
// @funcs Renderer::{process,process_chunk}, Clocks::update, SelfReferentialResourceStorage::for_each, Clock::update
// @catches a chunk's elapsed time taken from the configured buffer size instead of the frames actually in it (clocks run fast on remainder chunks); clocks updated twice or not at all per chunk
#[kani::proof]
#[kani::unwind(40)]
fn c05_renderer_clock_advance_remainder_chunk() { kv_clock_advance_body(3); }

// @h prop=C05,C11 tier=quick kind=main timeout=600
// @bounds as above with a device callback of 1 frame (smaller than the internal buffer)
// @funcs Renderer::{process,process_chunk}, Clocks::update, Clock::update
#[kani::proof]
#[kani::unwind(40)]
fn c05_renderer_clock_advance_short_callback() { kv_clock_advance_body(1); }

// @h prop=C16 tier=quick kind=main timeout=600
// @bounds Renderer::on_change_sample_rate to 1, 8000, 44100, 48000, 96000 or 192000 Hz (symbolic choice): dt becomes exactly 1/rate, the shared atomic (read by the gameplay thread when it initialises new tracks) holds the new rate
// @funcs Renderer::{new,on_change_sample_rate}, Mixer::on_change_sample_rate
// @catches dt left at the old rate (seconds and hertz then mean something else), or the shared rate not updated (tracks created later are initialised with the old rate)
#[kani::proof]
#[kani::unwind(4)]
fn c16_renderer_rate_change_updates_dt_and_shared_rate() {
	let (mut r, c) = kv_renderer(2, 0);
	let sel: u8 = kani::any();
	kani::assume(sel < 6);
	// (a symbolic divisor would make the oracle a second 53-bit divider: the common device rates are enumerated instead)
	let (rate, dt): (u32, f64) = match sel { 0 => (1, 1.0), 1 => (8000, 1.0 / 8000.0), 2 => (44100, 1.0 / 44100.0), 3 => (48000, 1.0 / 48000.0), 4 => (96000, 1.0 / 96000.0), _ => (192000, 1.0 / 192000.0) };
	assert!(r.dt == 0.25);
	r.on_change_sample_rate(rate);
	assert!(r.dt == dt, "every process call is handed dt = 1 / (the rate in force)");
	assert!(r.shared.sample_rate.load(Ordering::SeqCst) == rate, "new tracks are initialised with the rate in force");
	kani::cover!(rate == 48000, "w:48k");
	std::mem::forget(r); std::mem::forget(c);
}

// (C11: a harness rendering a real SendTrack through the real Renderer on a remainder chunk - with a probe effect,
// then with a volume tween as a stopwatch - ran out of memory in symbolic execution both times and was removed;
// the seeded change C11-m2 is therefore NOT detected. See DESIGN.md A.7.)
