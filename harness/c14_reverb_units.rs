// @append src/effect/reverb/comb.rs
// C14 / C13: the Freeverb comb unit (the all-pass unit is checked in c14_reverb_allpass.rs).

// @h prop=C14,C13 tier=quick kind=main
// @bounds comb line of 1..3 frames (symbolic), read index anywhere in it, line contents / filter store / input small integers, feedback and damping on the grid k/4 in [0,1]; one step compared with the Freeverb comb equations
// @funcs CombFilter::process
// @catches damping applied to the wrong term; feedback taken from the undamped output; index not wrapping at the line length; output not the delayed sample
#[kani::proof]
#[kani::unwind(5)]
fn c14_comb_step_matches_freeverb() {
	let len: usize = kani::any();
	kani::assume(len >= 1 && len <= 3);
	let mut f = CombFilter::new(3);
	f.buffer.truncate(len);
	let sm = || { let v: i8 = kani::any(); kani::assume(v >= -4 && v <= 4); v as f32 };
	let q = || { let v: u8 = kani::any(); kani::assume(v <= 4); v as f32 / 4.0 };
	let mut i = 0;
	while i < len { f.buffer[i] = sm(); i += 1; }
	let idx: usize = kani::any();
	kani::assume(idx < len);
	f.current_index = idx;
	let store = sm();
	f.filter_store = store;
	let (x, fb, damp) = (sm(), q(), q());
	let delayed = f.buffer[idx];
	let y = f.process(x, fb, damp);
	assert!(y == delayed, "a comb outputs the sample written one line length ago");
	let want_store = delayed * (1.0 - damp) + store * damp;
	assert!(f.filter_store == want_store, "one-pole damping of the fed-back signal");
	assert!(f.buffer[idx] == x + want_store * fb, "the line receives input + damped output x feedback");
	assert!(f.current_index == (idx + 1) % len, "the read/write index wraps at the line length");
	if x == 0.0 && delayed == 0.0 && store == 0.0 { assert!(y == 0.0 && f.buffer[idx] == 0.0 && f.filter_store == 0.0, "silence in, cleared state: silence out"); }
	kani::cover!(len == 3 && idx == 2, "w:wrap");
	kani::cover!(damp > 0.0 && damp < 1.0 && fb > 0.0, "w:damped-feedback");
	std::mem::forget(f);
}
