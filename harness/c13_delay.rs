// @append src/effect/delay.rs
// C13 / C14 / C11 / C01: delay laws on the REAL Delay (built by the real builder and init()).
use atomic_arena::Arena;
use crate::effect::EffectBuilder;

fn kv_small() -> f32 { let v: i8 = kani::any(); kani::assume(v >= -4 && v <= 4); v as f32 }

struct KvInfo(Arena<crate::clock::Clock>, Arena<Box<dyn crate::modulator::Modulator>>, Arena<crate::listener::Listener>);
impl KvInfo { fn new() -> Self { KvInfo(Arena::new(0), Arena::new(0), Arena::new(0)) } fn info(&self) -> Info<'_> { Info::new(&self.0, &self.1, &self.2, None) } }

/// the concrete Delay (not the Box<dyn Effect> the builder returns: a virtual init()/process() makes CBMC
/// consider every Effect implementation, Reverb's twelve comb/all-pass lines included)
fn kv_delay_from(builder: DelayBuilder) -> Delay {
	let (w, r) = command_writers_and_readers();
	std::mem::forget(w);
	Delay::new(builder, r)
}
fn kv_delay(frames: u64, feedback: Decibels, mix: f32, buffer: usize) -> Delay {
	// device rate 1 Hz: a delay of `frames` seconds is a line of `frames` frames
	let mut fx = kv_delay_from(DelayBuilder::new().delay_time(Duration::from_secs(frames)).feedback(feedback).mix(Mix(mix)));
	fx.init(1, buffer);
	assert!(fx.buffer.len() == frames as usize, "the delay line holds floor(delay time x sample rate) frames");
	fx
}

// @h prop=C13,C01 tier=quick kind=main
// @bounds DelayBuilder with a delay time shorter than one frame (0 s, and 0.5 s at 1 Hz), init + one 2-frame process; and on_change_sample_rate to a rate at which the delay is shorter than one frame
// @funcs Delay::{new,init,on_change_sample_rate,process}
// @catches F2: an empty delay line -> chunks_mut(0) panics on the audio thread
#[kani::proof]
#[kani::unwind(6)]
fn c13_delay_zero_length_line_no_panic() { kv_zero_len_body(false, false); }

// @h prop=C13,C01 tier=quick kind=main
// @bounds as above: a delay of half a frame, reached through on_change_sample_rate
// @funcs Delay::{new,init,on_change_sample_rate,process}
#[kani::proof]
#[kani::unwind(6)]
fn c13_delay_sub_frame_line_after_rate_change_no_panic() { kv_zero_len_body(true, true); }

fn kv_zero_len_body(half: bool, via_rate_change: bool) {
	let i = KvInfo::new();
	let info = i.info();
	let mut fx = kv_delay_from(DelayBuilder::new().delay_time(if half { Duration::from_millis(500) } else { Duration::ZERO }).feedback(Decibels::IDENTITY).mix(Mix(1.0)));
	if via_rate_change { fx.init(4, 2); fx.on_change_sample_rate(1); } else { fx.init(1, 2); }
	let mut buf = [Frame::from_mono(kv_small()), Frame::from_mono(kv_small())];
	fx.process(&mut buf, 1.0, &info);
	assert!(buf[0].left.is_finite() && buf[1].left.is_finite(), "finite output, no panic, for a delay time below one frame");
	kani::cover!(true, "w:reached");
	std::mem::forget(fx);
}

/// reference (integers, exact): feedback gain 1, fully wet: wet[k] = x[k-d] + wet[k-d]
fn kv_ref_wet(x: &[f32; 3], d: usize) -> [f32; 3] {
	let mut w = [0.0f32; 3];
	let mut k = 0;
	while k < 3 { if k >= d { w[k] = x[k - d] + w[k - d]; } k += 1; }
	w
}

fn kv_echo_body(d: usize, split: usize) {
	let i = KvInfo::new();
	let info = i.info();
	let x = [kv_small(), kv_small(), kv_small()];
	let mut fx = kv_delay(d as u64, Decibels::IDENTITY, 1.0, 3);
	let mut buf = [Frame::from_mono(x[0]), Frame::from_mono(x[1]), Frame::from_mono(x[2])];
	if split == 0 { fx.process(&mut buf, 1.0, &info); } else { let (a, b) = buf.split_at_mut(split); fx.process(a, 1.0, &info); fx.process(b, 1.0, &info); }
	let w = kv_ref_wet(&x, d);
	let mut k = 0;
	while k < 3 { assert!(buf[k].left == w[k] && buf[k].right == w[k], "echoes return at exact multiples of the delay time, each once more through the feedback gain; independent of how the input is split into process calls"); k += 1; }
	kani::cover!(x[0] != 0.0 && x[1] != 0.0, "w:non-trivial-input");
	std::mem::forget(fx);
}

// @h prop=C14,C13,C11 tier=quick kind=main timeout=600
// @bounds delay line of 1 frame, feedback 0 dB (gain exactly 1), fully wet; 3 frames of symbolic small-integer input; one call of 3 frames, or calls of (1,2) (symbolic choice of the split)
// @funcs Delay::{init,process}
// @catches echo arriving a frame early/late; feedback applied twice or not on the first echo; state lost between process calls; sub-chunking of the input by the line length wrong
#[kani::proof]
#[kani::unwind(7)]
fn c14_delay_echoes_line_1() { kv_echo_body(1, 0); }

// @h prop=C14,C13,C11 tier=quick kind=main timeout=600
// @bounds delay line of 1 frame, input split into process calls of (1,2)
// @funcs Delay::process
#[kani::proof]
#[kani::unwind(7)]
fn c14_delay_echoes_line_1_split() { kv_echo_body(1, 1); }

// @h prop=C14,C13,C11 tier=quick kind=main timeout=600
// @bounds delay line of 2 frames, otherwise as above; one call of 3 frames or calls of (1,2)
// @funcs Delay::{init,process}
#[kani::proof]
#[kani::unwind(7)]
fn c14_delay_echoes_line_2() { kv_echo_body(2, 0); }

// @h prop=C14,C13,C11 tier=quick kind=main timeout=600
// @bounds delay line of 2 frames, input split into process calls of (1,2)
// @funcs Delay::process
#[kani::proof]
#[kani::unwind(7)]
fn c14_delay_echoes_line_2_split() { kv_echo_body(2, 1); }

// @h prop=C14,C13,C11 tier=thorough kind=main timeout=1700
// @bounds delay line of 2 frames, 3 frames of input, one call or calls of (2,1)
// @funcs Delay::{init,process}
#[kani::proof]
#[kani::unwind(7)]
fn c14_delay_echoes_line_3() { kv_echo_body(2, 2); }

// @h prop=C13 tier=quick kind=main timeout=600
// @bounds delay line of 2 frames with symbolic small-integer contents, feedback 0 dB or -60 dB, mix 0 (fully dry, also below 0): 3 frames of finite input: output == input bit-exactly; cleared line + silence in -> silence out
// @funcs Delay::process
// @catches dry path attenuated; mix clamp dropped; silence producing signal from a cleared line
#[kani::proof]
#[kani::unwind(6)]
fn c13_delay_dry_is_identity_and_silence_stays_silent() {
	let i = KvInfo::new();
	let info = i.info();
	let fb_silent: bool = kani::any();
	let dry: bool = kani::any();
	let mut fx = kv_delay(2, if fb_silent { Decibels::SILENCE } else { Decibels::IDENTITY }, if dry { 0.0 } else { 1.0 }, 3);
	let x: [f32; 3] = kani::any();
	kani::assume(x[0].is_finite() && x[1].is_finite() && x[2].is_finite() && x[0].abs() <= 1e30 && x[1].abs() <= 1e30 && x[2].abs() <= 1e30);
	if !dry { kani::assume(x[0] == 0.0 && x[1] == 0.0 && x[2] == 0.0); }
	let mut buf = [Frame::from_mono(x[0]), Frame::from_mono(x[1]), Frame::from_mono(x[2])];
	fx.process(&mut buf, 1.0, &info);
	if dry { assert!(buf[0].left == x[0] && buf[1].left == x[1] && buf[2].left == x[2], "fully dry leaves the signal unchanged"); }
	else { assert!(buf[0] == Frame::ZERO && buf[1] == Frame::ZERO && buf[2] == Frame::ZERO, "silence in, cleared state: exact silence out"); }
	kani::cover!(dry && x[0] != 0.0, "w:dry");
	kani::cover!(!dry, "w:silence");
	std::mem::forget(fx);
}

// ---- nesting: an effect in the feedback loop ---------------------------------------------------
struct KvFx;
static mut KV_FX_INIT: (u32, usize) = (0, 0);
static mut KV_FX_RATE: u32 = 0;
static mut KV_FX_LENS: [usize; 4] = [0; 4];
static mut KV_FX_CALLS: usize = 0;
impl Effect for KvFx {
	fn init(&mut self, sample_rate: u32, internal_buffer_size: usize) { unsafe { KV_FX_INIT = (sample_rate, internal_buffer_size); } }
	fn on_change_sample_rate(&mut self, sample_rate: u32) { unsafe { KV_FX_RATE = sample_rate; } }
	fn process(&mut self, input: &mut [Frame], _dt: f64, _info: &Info) {
		unsafe { if KV_FX_CALLS < 4 { KV_FX_LENS[KV_FX_CALLS] = input.len(); } KV_FX_CALLS += 1; }
		let mut i = 0;
		while i < input.len() { input[i] = input[i] * 2.0; i += 1; }
	}
}

// @h prop=C13,C14,C16,C11 tier=quick kind=main timeout=600
// @bounds Delay of 2 s with a probe effect (x2) in its feedback loop; init at 2 Hz (4-frame line, internal buffer 4), then on_change_sample_rate DOWN to 1 Hz (2-frame line); then one process call of 3 frames
// @funcs Delay::{new,init,on_change_sample_rate,process}
// @catches the rate change not forwarded to feedback effects; the line not re-sized when the rate goes DOWN (delay time then depends on the old rate); feedback effects run over the whole scratch buffer instead of the chunk (state pushed along by stale frames)
#[kani::proof]
#[kani::unwind(8)]
fn c13_delay_feedback_effects_follow_rate_and_chunks() { kv_nested_body(true); }

// @h prop=C13,C14,C16 tier=thorough kind=main timeout=1700
// @bounds as above with the rate going UP (2 Hz -> 3 Hz)
// @funcs Delay::{new,init,on_change_sample_rate,process}
#[kani::proof]
#[kani::unwind(8)]
fn c13_delay_feedback_effects_follow_rate_up() { kv_nested_body(false); }

fn kv_nested_body(down: bool) {
	let i = KvInfo::new();
	let info = i.info();
	let mut b = DelayBuilder::new().delay_time(Duration::from_secs(2)).feedback(Decibels::IDENTITY).mix(Mix(1.0));
	b.feedback_effects.push(Box::new(KvFx));
	let mut fx = kv_delay_from(b);
	fx.init(2, 4);
	unsafe { assert!(KV_FX_INIT == (2, 4), "effects in the feedback loop are initialised with the delay"); }
	assert!(fx.buffer.len() == 4);
	let new_rate = if down { 1 } else { 3 };
	fx.on_change_sample_rate(new_rate);
	unsafe { assert!(KV_FX_RATE == new_rate, "a sample-rate change reaches the effects in the feedback loop"); }
	assert!(fx.buffer.len() == 2 * new_rate as usize, "the delay keeps its value in seconds: the line is re-sized to delay time x new rate, up or down");
	let mut buf = [Frame::from_mono(kv_small()), Frame::from_mono(kv_small()), Frame::from_mono(kv_small())];
	fx.process(&mut buf, 1.0 / new_rate as f64, &info);
	unsafe {
		// line of 2: sub-chunks of 2 and 1 frames; line of 6: one chunk of 3
		if down { assert!(KV_FX_CALLS == 2 && KV_FX_LENS[0] == 2 && KV_FX_LENS[1] == 1); } else { assert!(KV_FX_CALLS == 1 && KV_FX_LENS[0] == 3); }
	}
	kani::cover!(true, "w:reached");
	std::mem::forget(fx);
}

// @h prop=C13 tier=quick kind=main timeout=900
// @bounds delay line of 2 frames, feedback 0 dB, fully wet, 3 frames of symbolic small-integer input: superposition on exact integers - delay(x + y) == delay(x) + delay(y), delay(-x) == -delay(x)
// @funcs Delay::process
// @catches a non-linear or input-dependent term in the delay (clamp, offset, gating)
#[kani::proof]
#[kani::unwind(7)]
fn c13_delay_obeys_superposition_on_integers() {
	let i = KvInfo::new();
	let info = i.info();
	let x = [kv_small(), kv_small(), kv_small()];
	let y = [kv_small(), kv_small(), kv_small()];
	let neg: bool = kani::any();
	let run = |v: [f32; 3]| { let mut fx = kv_delay(2, Decibels::IDENTITY, 1.0, 3); let mut b = [Frame::from_mono(v[0]), Frame::from_mono(v[1]), Frame::from_mono(v[2])]; fx.process(&mut b, 1.0, &info); std::mem::forget(fx); [b[0].left, b[1].left, b[2].left] };
	let (rx, ry) = (run(x), run(y));
	let z = if neg { [-x[0], -x[1], -x[2]] } else { [x[0] + y[0], x[1] + y[1], x[2] + y[2]] };
	let rz = run(z);
	let mut k = 0;
	while k < 3 { if neg { assert!(rz[k] == -rx[k], "scaling"); } else { assert!(rz[k] == rx[k] + ry[k], "superposition"); } k += 1; }
	kani::cover!(!neg && x[0] != 0.0 && y[0] != 0.0, "w:two-signals");
}
