// libm CONTRACT STUBS (DESIGN.md §2.2).
//
// In Kani 0.68 powf/powi/sin/exp/log10 return an unconstrained nondeterministic float and
// tan is an unsupported foreign call. Harnesses that reach one of them replace it with
// `#[kani::stub(f32::powf, kv_powf32)]` etc. Each stub returns a nondeterministic value
// constrained (kani::assume) to the documented libm contract, and is MEMOISED over the calls of
// one harness (4 slots) so that it is a function and is monotone where libm is.
// Every axiom below is part of the trusted base; kv/validate_stubs.rs checks each of them
// against the real libm of the repository's toolchain on boundary-biased samples.
//
// Convention for native replay: a harness that uses these stubs draws all of ITS OWN
// kani::any() inputs before the first call that can reach a stub, so that the leading concrete
// values of a Kani counterexample are the harness inputs (the stubs do not exist natively; the
// real libm runs there).

macro_rules! kv_memo_fn2 {
	($name:ident, $tab:ident, $n:ident, $t:ty, $contract:ident, $pair:ident) => {
		static mut $tab: [($t, $t, $t); 4] = [(0.0, 0.0, 0.0); 4];
		static mut $n: usize = 0;
		pub fn $name(a: $t, b: $t) -> $t {
			unsafe {
				if $n > 0 && $tab[0].0.to_bits() == a.to_bits() && $tab[0].1.to_bits() == b.to_bits() { return $tab[0].2; }
				if $n > 1 && $tab[1].0.to_bits() == a.to_bits() && $tab[1].1.to_bits() == b.to_bits() { return $tab[1].2; }
				if $n > 2 && $tab[2].0.to_bits() == a.to_bits() && $tab[2].1.to_bits() == b.to_bits() { return $tab[2].2; }
				if $n > 3 && $tab[3].0.to_bits() == a.to_bits() && $tab[3].1.to_bits() == b.to_bits() { return $tab[3].2; }
				let r: $t = kani::any();
				kani::assume($contract(a, b, r));
				if $n > 0 { kani::assume($pair(a, b, r, $tab[0].0, $tab[0].1, $tab[0].2)); }
				if $n > 1 { kani::assume($pair(a, b, r, $tab[1].0, $tab[1].1, $tab[1].2)); }
				if $n > 2 { kani::assume($pair(a, b, r, $tab[2].0, $tab[2].1, $tab[2].2)); }
				if $n > 3 { kani::assume($pair(a, b, r, $tab[3].0, $tab[3].1, $tab[3].2)); }
				if $n < 4 { $tab[$n] = (a, b, r); $n += 1; }
				r
			}
		}
	};
}

macro_rules! kv_pow_contract {
	($contract:ident, $pair:ident, $t:ty) => {
		// C99 7.12.7.4 / IEEE 754-2008 pow, restricted to what the callers can pass
		fn $contract(b: $t, e: $t, r: $t) -> bool {
			if e == 0.0 { return r == 1.0; }
			if b == 1.0 { return r == 1.0; }
			if b.is_nan() || e.is_nan() { return r.is_nan(); }
			if e == 1.0 { return r.to_bits() == b.to_bits(); }
			if b < 0.0 { return true; } // negative bases: nothing assumed
			// b >= +0, e != 0, e != 1
			if r.is_nan() || r < 0.0 { return false; }
			if b == 0.0 { return if e > 0.0 { r == 0.0 } else { r == <$t>::INFINITY }; }
			if b == <$t>::INFINITY { return if e > 0.0 { r == <$t>::INFINITY } else { r == 0.0 }; }
			if e == <$t>::INFINITY { return if b > 1.0 { r == <$t>::INFINITY } else { r == 0.0 }; }
			if e == <$t>::NEG_INFINITY { return if b > 1.0 { r == 0.0 } else { r == <$t>::INFINITY }; }
			// finite b > 0, b != 1, finite e
			// magnitude facts for the decibel laws (base 10): 10^e for e in [-2, 0] is >= 0.0099, for e in [-3, 0] >= 0.00099, for e in [0, 1] it is <= 10.001
			if b == 10.0 && e >= -2.0 && e < 0.0 && !(r >= 0.0099) { return false; }
			if b == 10.0 && e >= -3.0 && e < 0.0 && !(r >= 0.00099) { return false; }
			if b == 10.0 && e > 0.0 && e <= 1.0 && !(r <= 10.001) { return false; }
			if (b > 1.0) == (e > 0.0) { r >= 1.0 } else { r <= 1.0 }
		}
		// monotonicity between two memoised points
		fn $pair(b1: $t, e1: $t, r1: $t, b2: $t, e2: $t, r2: $t) -> bool {
			if !(b1 >= 0.0 && b2 >= 0.0) || e1.is_nan() || e2.is_nan() { return true; }
			let mut ok = true;
			if b1 == b2 && b1 > 1.0 { if e1 <= e2 { ok = ok && r1 <= r2 } else { ok = ok && r1 >= r2 } }
			if b1 == b2 && b1 < 1.0 { if e1 <= e2 { ok = ok && r1 >= r2 } else { ok = ok && r1 <= r2 } }
			if e1 == e2 && e1 > 0.0 { if b1 <= b2 { ok = ok && r1 <= r2 } else { ok = ok && r1 >= r2 } }
			if e1 == e2 && e1 < 0.0 { if b1 <= b2 { ok = ok && r1 >= r2 } else { ok = ok && r1 <= r2 } }
			ok
		}
	};
}

kv_pow_contract!(kv_powf32_contract, kv_powf32_pair, f32);
kv_pow_contract!(kv_powf64_contract, kv_powf64_pair, f64);
kv_memo_fn2!(kv_powf32, KV_POWF32_TAB, KV_POWF32_N, f32, kv_powf32_contract, kv_powf32_pair);
kv_memo_fn2!(kv_powf64, KV_POWF64_TAB, KV_POWF64_N, f64, kv_powf64_contract, kv_powf64_pair);

// ---- powi(x, n): f64, i32 exponent --------------------------------------------------------
static mut KV_POWI_TAB: [(f64, i32, f64); 4] = [(0.0, 0, 0.0); 4];
static mut KV_POWI_N: usize = 0;
fn kv_powi_contract(x: f64, n: i32, r: f64) -> bool {
	if n == 0 { return r == 1.0; }
	if n == 1 { return r.to_bits() == x.to_bits(); }
	if x.is_nan() { return r.is_nan(); }
	if x == 1.0 { return r == 1.0; }
	if x < 0.0 { return true; }
	if r.is_nan() || r < 0.0 { return false; }
	if x == 0.0 { return if n > 0 { r == 0.0 } else { r == f64::INFINITY }; }
	if x == f64::INFINITY { return if n > 0 { r == f64::INFINITY } else { r == 0.0 }; }
	if (x > 1.0) == (n > 0) { r >= 1.0 } else { r <= 1.0 }
}
fn kv_powi_pair(x1: f64, n1: i32, r1: f64, x2: f64, n2: i32, r2: f64) -> bool {
	if !(x1 >= 0.0 && x2 >= 0.0) { return true; }
	if n1 == n2 && n1 > 0 { return if x1 <= x2 { r1 <= r2 } else { r1 >= r2 }; }
	if n1 == n2 && n1 < 0 { return if x1 <= x2 { r1 >= r2 } else { r1 <= r2 }; }
	true
}
pub fn kv_powi64(x: f64, n: i32) -> f64 {
	unsafe {
		if KV_POWI_N > 0 && KV_POWI_TAB[0].0.to_bits() == x.to_bits() && KV_POWI_TAB[0].1 == n { return KV_POWI_TAB[0].2; }
		if KV_POWI_N > 1 && KV_POWI_TAB[1].0.to_bits() == x.to_bits() && KV_POWI_TAB[1].1 == n { return KV_POWI_TAB[1].2; }
		if KV_POWI_N > 2 && KV_POWI_TAB[2].0.to_bits() == x.to_bits() && KV_POWI_TAB[2].1 == n { return KV_POWI_TAB[2].2; }
		if KV_POWI_N > 3 && KV_POWI_TAB[3].0.to_bits() == x.to_bits() && KV_POWI_TAB[3].1 == n { return KV_POWI_TAB[3].2; }
		let r: f64 = kani::any();
		kani::assume(kv_powi_contract(x, n, r));
		if KV_POWI_N > 0 { kani::assume(kv_powi_pair(x, n, r, KV_POWI_TAB[0].0, KV_POWI_TAB[0].1, KV_POWI_TAB[0].2)); }
		if KV_POWI_N > 1 { kani::assume(kv_powi_pair(x, n, r, KV_POWI_TAB[1].0, KV_POWI_TAB[1].1, KV_POWI_TAB[1].2)); }
		if KV_POWI_N > 2 { kani::assume(kv_powi_pair(x, n, r, KV_POWI_TAB[2].0, KV_POWI_TAB[2].1, KV_POWI_TAB[2].2)); }
		if KV_POWI_N > 3 { kani::assume(kv_powi_pair(x, n, r, KV_POWI_TAB[3].0, KV_POWI_TAB[3].1, KV_POWI_TAB[3].2)); }
		if KV_POWI_N < 4 { KV_POWI_TAB[KV_POWI_N] = (x, n, r); KV_POWI_N += 1; }
		r
	}
}

// ---- one-argument functions ---------------------------------------------------------------
macro_rules! kv_memo_fn1 {
	($name:ident, $tab:ident, $n:ident, $t:ty, $contract:ident, $pair:ident) => {
		static mut $tab: [($t, $t); 4] = [(0.0, 0.0); 4];
		static mut $n: usize = 0;
		pub fn $name(a: $t) -> $t {
			unsafe {
				if $n > 0 && $tab[0].0.to_bits() == a.to_bits() { return $tab[0].1; }
				if $n > 1 && $tab[1].0.to_bits() == a.to_bits() { return $tab[1].1; }
				if $n > 2 && $tab[2].0.to_bits() == a.to_bits() { return $tab[2].1; }
				if $n > 3 && $tab[3].0.to_bits() == a.to_bits() { return $tab[3].1; }
				let r: $t = kani::any();
				kani::assume($contract(a, r));
				if $n > 0 { kani::assume($pair(a, r, $tab[0].0, $tab[0].1)); }
				if $n > 1 { kani::assume($pair(a, r, $tab[1].0, $tab[1].1)); }
				if $n > 2 { kani::assume($pair(a, r, $tab[2].0, $tab[2].1)); }
				if $n > 3 { kani::assume($pair(a, r, $tab[3].0, $tab[3].1)); }
				if $n < 4 { $tab[$n] = (a, r); $n += 1; }
				r
			}
		}
	};
}

// tan on [0, pi/2]: finite (pi/2 is not representable, tan(FRAC_PI_2) ~ 1.6e16), >= x, monotone, tan(0)=0
fn kv_tan64_contract(x: f64, r: f64) -> bool {
	if x.is_nan() || x.is_infinite() { return r.is_nan(); }
	if x == 0.0 { return r == 0.0; }
	if x > 0.0 && x <= std::f64::consts::FRAC_PI_2 { return r.is_finite() && r >= x && r <= 1.7e16; }
	true
}
fn kv_tan64_pair(x1: f64, r1: f64, x2: f64, r2: f64) -> bool {
	let h = std::f64::consts::FRAC_PI_2;
	if x1 >= 0.0 && x1 <= h && x2 >= 0.0 && x2 <= h { return if x1 <= x2 { r1 <= r2 } else { r1 >= r2 }; }
	true
}
kv_memo_fn1!(kv_tan64, KV_TAN64_TAB, KV_TAN64_N, f64, kv_tan64_contract, kv_tan64_pair);

// sin: |r| <= 1, sin(+-0) = +-0, odd, NaN for non-finite
fn kv_sin64_contract(x: f64, r: f64) -> bool {
	if x.is_nan() || x.is_infinite() { return r.is_nan(); }
	if x == 0.0 { return r == 0.0; }
	r >= -1.0 && r <= 1.0
}
fn kv_sin64_pair(x1: f64, r1: f64, x2: f64, r2: f64) -> bool {
	if x1 == -x2 { return r1 == -r2; }
	true
}
kv_memo_fn1!(kv_sin64, KV_SIN64_TAB, KV_SIN64_N, f64, kv_sin64_contract, kv_sin64_pair);

// exp: > = 0, exp(0) = 1, exp(x<=0) in [0,1], exp(x>=0) >= 1, monotone
fn kv_exp64_contract(x: f64, r: f64) -> bool {
	if x.is_nan() { return r.is_nan(); }
	if x == 0.0 { return r == 1.0; }
	if x == f64::NEG_INFINITY { return r == 0.0; }
	if x == f64::INFINITY { return r == f64::INFINITY; }
	if x < 0.0 { r >= 0.0 && r <= 1.0 } else { r >= 1.0 }
}
fn kv_exp64_pair(x1: f64, r1: f64, x2: f64, r2: f64) -> bool {
	if x1.is_nan() || x2.is_nan() { return true; }
	if x1 <= x2 { r1 <= r2 } else { r1 >= r2 }
}
kv_memo_fn1!(kv_exp64, KV_EXP64_TAB, KV_EXP64_N, f64, kv_exp64_contract, kv_exp64_pair);

// log10 (f32): log10(0) = -inf, log10(1) = 0, NaN for x < 0, monotone; finite for finite x > 0
fn kv_log10f32_contract(x: f32, r: f32) -> bool {
	if x.is_nan() || x < 0.0 { return r.is_nan(); }
	if x == 0.0 { return r == f32::NEG_INFINITY; }
	if x == 1.0 { return r == 0.0; }
	if x == f32::INFINITY { return r == f32::INFINITY; }
	if x < 1.0 { r < 0.0 && r >= -46.0 } else { r > 0.0 && r <= 39.0 }
}
fn kv_log10f32_pair(x1: f32, r1: f32, x2: f32, r2: f32) -> bool {
	if !(x1 >= 0.0 && x2 >= 0.0) { return true; }
	if x1 <= x2 { r1 <= r2 } else { r1 >= r2 }
}
kv_memo_fn1!(kv_log10f32, KV_LOG10F32_TAB, KV_LOG10F32_N, f32, kv_log10f32_contract, kv_log10f32_pair);

// sqrt (f32): CBMC's own sqrt is bit-precise but makes every product with its result a hard
// multiplier problem; where only order/end-point facts are needed the contract stub is used.
fn kv_sqrt32_contract(x: f32, r: f32) -> bool {
	if x.is_nan() || x < 0.0 { return r.is_nan(); }
	if x == 0.0 { return r == 0.0; }
	if x == 1.0 { return r == 1.0; }
	if x == f32::INFINITY { return r == f32::INFINITY; }
	if x < 1.0 { r >= x && r < 1.0 && r > 0.0 } else { r <= x && r > 1.0 }
}
fn kv_sqrt32_pair(x1: f32, r1: f32, x2: f32, r2: f32) -> bool {
	if !(x1 >= 0.0 && x2 >= 0.0) { return true; }
	if x1 <= x2 { r1 <= r2 } else { r1 >= r2 }
}
kv_memo_fn1!(kv_sqrt32, KV_SQRT32_TAB, KV_SQRT32_N, f32, kv_sqrt32_contract, kv_sqrt32_pair);

// ---- UNINTERPRETED stand-ins for arithmetic kernels ------------------------------------------
// Measured: CBMC does not identify two identical 53-bit (or 24-bit) float multipliers, so an
// oracle that repeats `a + (b - a) * t` next to the implementation's copy is never decided.
// Step harnesses therefore replace the kernel `<T as Tweenable>::interpolate` by a memoised
// uninterpreted function: implementation and oracle then agree iff they pass bit-identical
// arguments (which is the structural claim), and the kernel itself is checked separately.
static mut KV_INTERP64_TAB: [(f64, f64, f64, f64); 4] = [(0.0, 0.0, 0.0, 0.0); 4];
static mut KV_INTERP64_N: usize = 0;
static mut KV_INTERP64_CALLS: usize = 0;
pub fn kv_interp64(a: f64, b: f64, t: f64) -> f64 {
	unsafe {
		KV_INTERP64_CALLS += 1;
		let hit = |e: &(f64, f64, f64, f64)| e.0.to_bits() == a.to_bits() && e.1.to_bits() == b.to_bits() && e.2.to_bits() == t.to_bits();
		if KV_INTERP64_N > 0 && hit(&KV_INTERP64_TAB[0]) { return KV_INTERP64_TAB[0].3; }
		if KV_INTERP64_N > 1 && hit(&KV_INTERP64_TAB[1]) { return KV_INTERP64_TAB[1].3; }
		if KV_INTERP64_N > 2 && hit(&KV_INTERP64_TAB[2]) { return KV_INTERP64_TAB[2].3; }
		if KV_INTERP64_N > 3 && hit(&KV_INTERP64_TAB[3]) { return KV_INTERP64_TAB[3].3; }
		let r: f64 = kani::any();
		// the only facts kept: exact end point at amount 0 and no NaN from finite operands
		if t == 0.0 && a.is_finite() && b.is_finite() { kani::assume(r.to_bits() == a.to_bits() || r == a); }
		if a.is_finite() && b.is_finite() && t.is_finite() { kani::assume(!r.is_nan()); }
		if KV_INTERP64_N < 4 { KV_INTERP64_TAB[KV_INTERP64_N] = (a, b, t, r); KV_INTERP64_N += 1; }
		r
	}
}
static mut KV_INTERP32_TAB: [(f32, f32, f64, f32); 4] = [(0.0, 0.0, 0.0, 0.0); 4];
static mut KV_INTERP32_N: usize = 0;
static mut KV_INTERP32_CALLS: usize = 0;
pub fn kv_interp32(a: f32, b: f32, t: f64) -> f32 {
	unsafe {
		KV_INTERP32_CALLS += 1;
		let hit = |e: &(f32, f32, f64, f32)| e.0.to_bits() == a.to_bits() && e.1.to_bits() == b.to_bits() && e.2.to_bits() == t.to_bits();
		if KV_INTERP32_N > 0 && hit(&KV_INTERP32_TAB[0]) { return KV_INTERP32_TAB[0].3; }
		if KV_INTERP32_N > 1 && hit(&KV_INTERP32_TAB[1]) { return KV_INTERP32_TAB[1].3; }
		if KV_INTERP32_N > 2 && hit(&KV_INTERP32_TAB[2]) { return KV_INTERP32_TAB[2].3; }
		if KV_INTERP32_N > 3 && hit(&KV_INTERP32_TAB[3]) { return KV_INTERP32_TAB[3].3; }
		let r: f32 = kani::any();
		if t == 0.0 && a.is_finite() && b.is_finite() { kani::assume(r == a); }
		if a.is_finite() && b.is_finite() && t.is_finite() { kani::assume(!r.is_nan()); }
		if KV_INTERP32_N < 4 { KV_INTERP32_TAB[KV_INTERP32_N] = (a, b, t, r); KV_INTERP32_N += 1; }
		r
	}
}

// Duration::from_secs_f64 on a symbolic f64 is a 500k-variable float decomposition; harnesses in
// which the result is irrelevant (no Delayed start time in the state) replace it by an arbitrary
// value. (Harnesses about Delayed start times keep the real function and use concrete dt.)
pub fn kv_duration_from_secs_any(_secs: f64) -> std::time::Duration {
	let s: u64 = kani::any();
	let n: u32 = kani::any();
	kani::assume(n < 1_000_000_000);
	std::time::Duration::new(s, n)
}
