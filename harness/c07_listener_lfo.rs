// @append src/listener.rs
// @requires kv_param_peek.rs
// C07: listener commands reach the audio side exactly once.

// @h prop=C07,C15 tier=quick kind=main timeout=900
// @bounds real Listener + ListenerHandle: set_position written zero, one or two times (concrete small-integer targets, last wins) before the first callback; on_start_processing twice
// @funcs Listener::{new,on_start_processing}, ListenerHandle::set_position, Parameter::<Vec3>::read_command
// @catches a listener command lost before the first callback, the first of a burst winning, or the tween restarted by the next callback
#[kani::proof]
#[kani::unwind(3)]
fn c07_listener_position_command_applied_exactly_once() {
	let id = { let a: atomic_arena::Arena<u8> = atomic_arena::Arena::new(1); let k = a.controller().try_reserve().unwrap(); std::mem::forget(a); ListenerId(k) };
	let (mut listener, mut handle) = Listener::new(id, Value::Fixed(Vec3::ZERO), Value::Fixed(Quat::IDENTITY));
	let n: u8 = kani::any();
	kani::assume(n <= 2);
	let tw = crate::Tween { start_time: crate::StartTime::Immediate, duration: std::time::Duration::from_millis(250), easing: crate::Easing::Linear };
	if n >= 1 { handle.set_position(mint::Vector3 { x: 1.0, y: 0.0, z: 0.0 }, tw); }
	if n >= 2 { handle.set_position(mint::Vector3 { x: 2.0, y: 0.0, z: 0.0 }, tw); }
	listener.on_start_processing();
	let want = match n { 0 => None, 1 => Some(Vec3::new(1.0, 0.0, 0.0)), _ => Some(Vec3::new(2.0, 0.0, 0.0)) };
	assert!(listener.position.kv_fixed_tween_target() == want, "only the last command of a burst is applied, and one issued before the first callback is not lost");
	assert!(listener.command_readers.set_position.read().is_none(), "it was consumed: a second drain re-applies nothing");
	assert!(listener.orientation.kv_fixed_tween_target().is_none(), "commands of a different kind are not affected");
	kani::cover!(n == 2, "w:burst");
	std::mem::forget(listener); std::mem::forget(handle);
}
