use crate::manager::Capacities;
use crate::track::MainTrackBuilder;
#[kani::proof]
#[kani::unwind(5)]
fn renderer_final_stage() {
	let (resources, _controllers) = crate::backend::resources::create_resources(
		Capacities { sub_track_capacity: 0, send_track_capacity: 0, clock_capacity: 0, modulator_capacity: 0, listener_capacity: 0 },
		MainTrackBuilder::new().sound_capacity(0),
		48000,
		2,
	);
	let shared = Arc::new(RendererShared::new(48000));
	let mut r = Renderer::new(shared, 2, resources);
	let l: f32 = kani::any();
	let rr: f32 = kani::any();
	kani::assume(!l.is_nan() && !rr.is_nan());
	r.temp_buffer[0] = Frame::new(l, rr);
	const NCH: usize = 3;
	let mut out = [7.0f32; NCH * 3];
	r.process(&mut out, NCH as u16);
	assert!(out[0] == l.clamp(-1.0, 1.0));
	assert!(out[1] == rr.clamp(-1.0, 1.0));
	let mut i = 0;
	while i < NCH * 3 {
		assert!(out[i].is_finite() && out[i] >= -1.0 && out[i] <= 1.0);
		if i % NCH >= 2 { assert!(out[i] == 0.0); }
		i += 1;
	}
	assert!(r.temp_buffer[0] == Frame::ZERO);
	std::mem::forget(r);
	std::mem::forget(_controllers);
}
