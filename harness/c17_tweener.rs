// @append src/modulator/tweener.rs
// C17: the tweener modulator (the tween logic duplicated from Parameter): one update from ANY state.
include!(concat!(env!("KV_HARNESS_DIR"), "/lib/libm.rs"));
use crate::Easing;
use atomic_arena::Arena;

static mut KV_TV_TAB: [(f64, f64); 2] = [(0.0, 0.0); 2];
static mut KV_TV_N: usize = 0;
fn kv_tween_value(_tw: &Tween, time: f64) -> f64 {
	unsafe {
		if KV_TV_N > 0 && KV_TV_TAB[0].0.to_bits() == time.to_bits() { return KV_TV_TAB[0].1; }
		if KV_TV_N > 1 && KV_TV_TAB[1].0.to_bits() == time.to_bits() { return KV_TV_TAB[1].1; }
		let r: f64 = kani::any();
		kani::assume(r >= 0.0 && r <= 1.0);
		if KV_TV_N < 2 { KV_TV_TAB[KV_TV_N] = (time, r); KV_TV_N += 1; }
		r
	}
}

fn kv_body(duration: Duration) {
	let c: Arena<crate::clock::Clock> = Arena::new(0);
	let m: Arena<Box<dyn Modulator>> = Arena::new(0);
	let l: Arena<crate::listener::Listener> = Arena::new(0);
	let info = Info::new(&c, &m, &l, None);
	let (w, r) = command_writers_and_readers();
	std::mem::forget(w);
	let fin = || { let v: f64 = kani::any(); kani::assume(v.is_finite() && v.abs() <= 1e300); v };
	let (from, to, cur) = (fin(), fin(), fin());
	let idle: bool = kani::any();
	let time: f64 = kani::any();
	let dsecs = duration.as_secs_f64();
	kani::assume(time >= 0.0 && (time < dsecs || time == 0.0));
	let dt: f64 = kani::any();
	kani::assume(dt > 0.0 && dt <= 4.0);
	let tween = Tween { start_time: StartTime::Immediate, duration, easing: Easing::Linear };
	let mut t = Tweener { state: if idle { State::Idle } else { State::Tweening { values: (from, to), time, tween } }, value: cur, command_readers: r, shared: Arc::new(TweenerShared::new()) };
	t.update(dt, &info);
	if idle {
		assert!(t.value().to_bits() == cur.to_bits(), "an idle tweener holds its value");
	} else if time + dt >= dsecs {
		assert!(t.value().to_bits() == to.to_bits() && matches!(t.state, State::Idle), "moves to each target exactly and then holds it");
	} else {
		let want = <f64 as Tweenable>::interpolate(from, to, tween.value(time + dt));
		assert!(t.value().to_bits() == want.to_bits(), "follows interpolate(start, target, ease(elapsed/duration))");
		match t.state { State::Tweening { time: t2, .. } => assert!(t2 == time + dt), _ => assert!(false) }
	}
	kani::cover!(!idle && time + dt >= dsecs, "w:finishes");
	kani::cover!(duration.is_zero() || (!idle && time > 0.0 && time + dt < dsecs), "w:mid-tween(or zero duration)");
	std::mem::forget(t); std::mem::forget(c); std::mem::forget(m); std::mem::forget(l);
}

// @h prop=C17,C06 tier=quick kind=main
// @bounds Tweener::update from Idle or Tweening{any finite values, elapsed in [0,d)}, duration 250 ms, immediate start, dt in (0,4] (all f64 bit patterns in range)
// @funcs Tweener::update, Tweener::value
// @assume Tween::value and <f64 as Tweenable>::interpolate replaced by memoised stand-ins; Duration::from_secs_f64 arbitrary (unused)
// @catches the tweener's copy of the tween logic diverging from Parameter's: finish test, exact target, time accumulation
#[kani::proof]
#[kani::unwind(2)]
#[kani::stub(Tween::value, kv_tween_value)]
#[kani::stub(<f64 as Tweenable>::interpolate, kv_interp64)]
#[kani::stub(Duration::from_secs_f64, kv_duration_from_secs_any)]
fn c17_tweener_update_step_d250ms() { kv_body(Duration::from_millis(250)); }

// @h prop=C17,C06 tier=quick kind=main
// @bounds as above with a zero duration
// @funcs Tweener::update
#[kani::proof]
#[kani::unwind(2)]
#[kani::stub(Tween::value, kv_tween_value)]
#[kani::stub(<f64 as Tweenable>::interpolate, kv_interp64)]
#[kani::stub(Duration::from_secs_f64, kv_duration_from_secs_any)]
fn c17_tweener_update_step_d0() { kv_body(Duration::ZERO); }

// @h prop=C17,C06 tier=quick kind=main
// @bounds Tweener::set from any state: the new tween starts from the current (possibly mid-tween) value
// @funcs Tweener::set
#[kani::proof]
#[kani::unwind(2)]
fn c17_tweener_set_starts_from_current_value() {
	let (w, r) = command_writers_and_readers();
	std::mem::forget(w);
	let (cur, to): (f64, f64) = (kani::any(), kani::any());
	kani::assume(!cur.is_nan() && !to.is_nan());
	let mut t = Tweener { state: State::Idle, value: cur, command_readers: r, shared: Arc::new(TweenerShared::new()) };
	t.set(to, Tween::default());
	match t.state { State::Tweening { values, time, .. } => assert!(values.0 == cur && values.1 == to && time == 0.0), _ => assert!(false) }
	assert!(t.value() == cur);
	kani::cover!(cur != to, "w:moves");
	std::mem::forget(t);
}

// @h prop=C07,C17 tier=quick kind=main timeout=600
// @bounds real Tweener with its command channel: zero, one or two `set` commands (symbolic targets) written before a callback; on_start_processing twice
// @funcs Tweener::on_start_processing, Tweener::set, CommandReader::read
// @catches a set command lost, applied twice (the tween restarted by the next callback), or the first of a burst winning
#[kani::proof]
#[kani::unwind(3)]
fn c07_tweener_set_command_applied_exactly_once() {
	let (mut w, r) = command_writers_and_readers();
	let mut t = Tweener { state: State::Idle, value: 1.0, command_readers: r, shared: Arc::new(TweenerShared::new()) };
	let n: u8 = kani::any();
	kani::assume(n <= 2);
	let (a, b): (f64, f64) = (kani::any(), kani::any());
	kani::assume(!a.is_nan() && !b.is_nan());
	if n >= 1 { w.set.write((a, Tween::default())); }
	if n >= 2 { w.set.write((b, Tween::default())); }
	t.on_start_processing();
	let last = if n == 2 { b } else { a };
	match &mut t.state {
		State::Idle => assert!(n == 0, "a command issued before the callback is not lost"),
		State::Tweening { values, time, .. } => { assert!(n >= 1 && values.1 == last && values.0 == 1.0, "only the last command of a burst is applied"); *time = 0.005; }
	}
	t.on_start_processing();
	match &t.state { State::Tweening { time, .. } => assert!(*time == 0.005, "a second drain does not re-apply (restart) it"), State::Idle => assert!(n == 0) }
	kani::cover!(n == 2 && a != b, "w:burst");
	std::mem::forget(t); std::mem::forget(w);
}
