// @append src/track/main.rs
// helper (no harness): put a sound straight into the main track's arena (bypasses the hand-over rings,
// whose Box<dyn Sound> drop glue dominates symbolic execution; the rings are C08's subject)
impl MainTrack {
	pub(crate) fn kv_place_sound(&mut self, sound: Box<dyn Sound>) {
		let key = self.sounds.resources.controller().try_reserve().unwrap();
		let r = self.sounds.resources.insert_with_key(key, sound);
		std::mem::forget(r);
	}
}
