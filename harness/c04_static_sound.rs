// @append src/sound/static_sound/sound.rs
// @requires kv_param_peek.rs
// @requires kv_resampler_peek.rs
// Scenes over the REAL StaticSound (built by StaticSound::new): C04 sample accuracy, C03 frozen
// states / liveness, C07 command application, C01 panic-freedom of the callback path.
// Frames carry their own index (frame i has value i+1; 0 is silence), so the played index
// sequence is read off the output. Device rate == sound rate == 1 Hz, dt = 1 s, one frame per
// callback: every float operation on the signal path is then on constants or exact small integers.

use crate::clock::Clock;
use crate::listener::Listener;
use crate::modulator::Modulator;
use crate::sound::static_sound::{command_writers_and_readers, StaticSoundSettings, CommandWriters};
use crate::sound::{EndPosition, PlaybackPosition, Region};
use crate::command::ValueChangeCommand;
use crate::Value;
use atomic_arena::Arena;
use std::time::Duration;

const KV_N: usize = 4; // frames in the backing buffer

struct KvArenas(Arena<Clock>, Arena<Box<dyn Modulator>>, Arena<Listener>);
impl KvArenas {
	fn empty() -> Self { KvArenas(Arena::new(0), Arena::new(0), Arena::new(0)) }
	fn info(&self) -> Info<'_> { Info::new(&self.0, &self.1, &self.2, None) }
}

fn kv_frames() -> Arc<[Frame]> {
	let v: Vec<Frame> = (0..KV_N).map(|i| Frame::from_mono((i + 1) as f32)).collect();
	v.into()
}

fn kv_code(f: Frame) -> usize {
	// inverse of the index code; 0 = silence; 99 = something that is not a source frame
	if f.left != f.right { return 99; }
	let mut k = 0;
	while k <= KV_N { if f.left == k as f32 { return k; } k += 1; }
	99
}

/// slice [s0, s1) of the backing buffer with a symbolic end, n = s1 - s0 >= 1 (the slice start is
/// concrete per harness: a symbolic offset into the frame array multiplies the formula beyond reach)
fn kv_slice(s0: usize) -> (usize, usize) {
	let s1: usize = kani::any();
	kani::assume(s0 < s1 && s1 <= KV_N);
	(s0, s1)
}

fn kv_sound(slice: (usize, usize), settings: StaticSoundSettings) -> (StaticSound, CommandWriters) {
	let data = StaticSoundData { sample_rate: 1, frames: kv_frames(), settings, slice: Some(slice) };
	let (w, r) = command_writers_and_readers();
	(StaticSound::new(data, r), w)
}

fn kv_region(ls: usize, le: usize, to_end: bool) -> Region {
	Region { start: PlaybackPosition::Samples(ls), end: if to_end { EndPosition::EndOfAudio } else { EndPosition::Custom(PlaybackPosition::Samples(le)) } }
}

/// reference transport (integers): next position forwards
fn kv_ref_inc(p: usize, playing: bool, lp: Option<(usize, usize)>, n: usize) -> (usize, bool) {
	if !playing { return (p, false); }
	let mut q = p + 1;
	if let Some((ls, le)) = lp { let mut g = 0; while q >= le && g < 8 { q -= le - ls; g += 1; } }
	(q, q < n)
}
fn kv_ref_dec(p: usize, playing: bool, lp: Option<(usize, usize)>) -> (usize, bool) {
	if !playing { return (p, false); }
	let mut q = p;
	if let Some((ls, le)) = lp { let mut g = 0; while q <= ls && g < 8 { q += le - ls; g += 1; } }
	if q == 0 { (0, false) } else { (q - 1, true) }
}

fn kv_play_body(reverse: bool, looping: bool, steps: usize, s0: usize) {
	let a = KvArenas::empty();
	let info = a.info();
	let (s0, s1) = kv_slice(s0);
	let n = s1 - s0;
	let start: usize = kani::any();
	kani::assume(start < n);
	let (ls, le, to_end): (usize, usize, bool) = (kani::any(), kani::any(), kani::any());
	let mut settings = StaticSoundSettings::new().start_position(PlaybackPosition::Samples(start)).reverse(reverse);
	let mut lp = None;
	if looping {
		let eff_le = if to_end { n } else { le };
		kani::assume(ls < eff_le && eff_le <= n);
		settings.loop_region = Some(kv_region(ls, le, to_end));
		lp = Some((ls, eff_le));
	}
	let (mut sound, _w) = kv_sound((s0, s1), settings);
	// reference: the sequence of positions the transport visits, starting where Transport::new puts it
	let mut p = if reverse { n - 1 - start } else { start };
	let mut playing = true;
	let mut k = 0;
	let mut out = [Frame::ZERO; 1];
	let mut stopped_at: Option<usize> = None;
	while k < steps {
		sound.process(&mut out, 1.0, &info);
		let want = if playing && p < n { s0 + p + 1 } else { 0 };
		assert!(out[0] == Frame::from_mono(want as f32), "output k is exactly the source frame at the k-th transport position (bit-exact, no latency), silence after the end");
		if want != 0 { assert!(s0 + p < s1, "never reads outside its slice"); }
		let (np, npl) = if reverse { kv_ref_dec(p, playing, lp) } else { kv_ref_inc(p, playing, lp, n) };
		p = np;
		playing = npl;
		if sound.finished() && stopped_at.is_none() { stopped_at = Some(k); }
		if looping && !reverse { assert!(!sound.finished(), "a looping sound does not end"); }
		k += 1;
	}
	if !looping {
		// played (n - start) frames, then the resampler drains: Stopped is reported with the first silent callback
		let audible = n - start;
		if audible + 1 <= steps {
			assert!(stopped_at == Some(audible), "reports Stopped right after the last frame has been heard");
			assert!(sound.shared.state() == PlaybackState::Stopped);
		}
	}
	kani::cover!(n >= 3 && start == 1, "w:inner-start");
	kani::cover!(!looping || ls > 0, "w:loop-not-at-zero(or no loop)");
	kani::cover!(s1 < KV_N || s0 > 0, "w:proper-slice");
	std::mem::forget(sound);
}

// @h prop=C04,C01 tier=thorough kind=main timeout=1700
// @bounds forward, no loop; backing buffer 4 frames, any slice [s0,s1) of it (n = 1..4), any start position < n; rate 1, device rate == sound rate; 6 one-frame callbacks
// @funcs StaticSound::new, StaticSound::process, StaticSound::update_position, StaticSound::push_frame_to_resampler, Resampler::{new,push_frame,get,empty}, Transport::{new,increment_position}, frame_at_index, num_frames, interpolate_frame, Frame::panned, Decibels::as_amplitude
// @catches start position relative to the buffer instead of the slice; added latency (pre-fill of 2 instead of 3 frames); end detection off by one; Stopped reported late or early
#[kani::proof]
#[kani::unwind(8)]
fn c04_static_forward_bit_exact() { kv_play_body(false, false, 6, 0); }

// @h prop=C04,C01 tier=thorough kind=main timeout=1700
// @bounds forward, no loop; backing buffer 4 frames, any slice starting at frame 1 [1,s1) of it (n = 1..4), any start position < n; rate 1, device rate == sound rate; 6 one-frame callbacks
// @funcs StaticSound::new, StaticSound::process, StaticSound::update_position, StaticSound::push_frame_to_resampler, Resampler::{new,push_frame,get,empty}, Transport::{new,increment_position}, frame_at_index, num_frames, interpolate_frame, Frame::panned, Decibels::as_amplitude
// @catches start position relative to the buffer instead of the slice; added latency (pre-fill of 2 instead of 3 frames); end detection off by one; Stopped reported late or early
#[kani::proof]
#[kani::unwind(8)]
fn c04_static_forward_bit_exact_sliced() { kv_play_body(false, false, 6, 1); }

// @h prop=C04,C01 tier=thorough kind=main timeout=1700
// @bounds reverse, no loop; any slice of a 4-frame buffer, any start position < n; 6 callbacks
// @funcs StaticSound::new, StaticSound::process, StaticSound::is_playing_backwards, Transport::{new,decrement_position}
// @catches reverse start computed from the unsliced length; reverse/negative-rate direction logic; last frame (index 0) dropped
#[kani::proof]
#[kani::unwind(8)]
fn c04_static_reverse_bit_exact() { kv_play_body(true, false, 6, 0); }

// @h prop=C04,C01 tier=thorough kind=main timeout=1700
// @bounds reverse, no loop; any slice starting at frame 1 of a 4-frame buffer, any start position < n; 6 callbacks
// @funcs StaticSound::new, StaticSound::process, StaticSound::is_playing_backwards, Transport::{new,decrement_position}
// @catches reverse start computed from the unsliced length; reverse/negative-rate direction logic; last frame (index 0) dropped
#[kani::proof]
#[kani::unwind(8)]
fn c04_static_reverse_bit_exact_sliced() { kv_play_body(true, false, 6, 1); }

// @h prop=C04,C01 tier=thorough kind=main timeout=1700
// @bounds forward with a loop region (ls < le <= n, or open-ended `ls..`), any slice, start anywhere (inside, before or after the loop); 6 callbacks
// @funcs StaticSound::new, StaticSound::process, Transport::{new,increment_position}
// @catches open-ended loop end taken from the unsliced length; wrap not landing on loop start; loop end inclusive
#[kani::proof]
#[kani::unwind(9)]
fn c04_static_forward_loop_bit_exact() { kv_play_body(false, true, 6, 0); }

// @h prop=C04,C01 tier=thorough kind=main timeout=1700
// @bounds forward with a loop region (ls < le <= n, or open-ended `ls..`), any slice starting at frame 1, start anywhere (inside, before or after the loop); 6 callbacks
// @funcs StaticSound::new, StaticSound::process, Transport::{new,increment_position}
// @catches open-ended loop end taken from the unsliced length; wrap not landing on loop start; loop end inclusive
#[kani::proof]
#[kani::unwind(9)]
fn c04_static_forward_loop_bit_exact_sliced() { kv_play_body(false, true, 6, 1); }

// @h prop=C04,C01 tier=thorough kind=main timeout=1700
// @bounds reverse with a loop region, any slice, any start; 6 callbacks
// @funcs StaticSound::new, StaticSound::process, Transport::{new,decrement_position}
#[kani::proof]
#[kani::unwind(9)]
fn c04_static_reverse_loop_bit_exact() { kv_play_body(true, true, 6, 0); }

// @h prop=C04,C01 tier=thorough kind=main timeout=1700
// @bounds reverse with a loop region, any slice starting at frame 1, any start; 6 callbacks
// @funcs StaticSound::new, StaticSound::process, Transport::{new,decrement_position}
#[kani::proof]
#[kani::unwind(9)]
fn c04_static_reverse_loop_bit_exact_sliced() { kv_play_body(true, true, 6, 1); }

// @h prop=C04 tier=quick kind=main timeout=600
// @bounds reverse flag x sign of the playback rate (+1 / -1), 3-frame sound from its first/last frame, 3 callbacks: direction = reverse XOR negative rate
// @funcs StaticSound::is_playing_backwards, StaticSound::update_position, StaticSound::process
// @catches reverse and a negative rate not cancelling (OR instead of XOR)
#[kani::proof]
#[kani::unwind(6)]
fn c04_static_direction_is_reverse_xor_negative_rate() {
	let a = KvArenas::empty();
	let info = a.info();
	let reverse: bool = kani::any();
	let negative: bool = kani::any();
	let settings = StaticSoundSettings { playback_rate: Value::Fixed(PlaybackRate(if negative { -1.0 } else { 1.0 })), ..StaticSoundSettings::new().reverse(reverse).start_position(PlaybackPosition::Samples(1)) };
	let (mut sound, _w) = kv_sound((0, 3), settings);
	// Transport::new: position 1 either way (n-1-1 == 1); pre-fill steps in the playing direction
	let backwards = reverse != negative;
	let mut out = [Frame::ZERO; 1];
	sound.process(&mut out, 1.0, &info);
	assert!(kv_code(out[0]) == 2, "starts on the requested frame");
	sound.process(&mut out, 1.0, &info);
	assert!(kv_code(out[0]) == if backwards { 1 } else { 3 }, "plays backwards iff exactly one of reverse / negative rate is set");
	kani::cover!(reverse && negative, "w:both");
	std::mem::forget(sound);
}

// ---------------------------------------------------------------------------------------------
// C03: frozen states and Stopped
// ---------------------------------------------------------------------------------------------
fn kv_zero_tween() -> Tween { Tween { start_time: StartTime::Immediate, duration: Duration::ZERO, easing: crate::Easing::Linear } }

struct KvPos { pos: usize, playing: bool, frac: f64, heard: usize, window: [usize; 4], shared_pos: u64 }
fn kv_pos(s: &StaticSound) -> KvPos {
	KvPos { pos: s.transport.position, playing: s.transport.playing, frac: s.fractional_position, heard: s.resampler.current_frame_index(),
		window: s.resampler.kv_indices(), shared_pos: s.shared.position().to_bits() }
}
fn kv_same(a: &KvPos, b: &KvPos) -> bool {
	a.pos == b.pos && a.playing == b.playing && a.frac.to_bits() == b.frac.to_bits() && a.heard == b.heard && a.window[0] == b.window[0] && a.window[1] == b.window[1] && a.window[2] == b.window[2] && a.window[3] == b.window[3]
}

// @h prop=C03 tier=quick kind=main timeout=600
// @bounds a StaticSound in ANY transport/resampler state (as c04_static_one_callback_from_any_state) whose state machine is Paused, WaitingToResume (delay pending) or Stopped; one process() call of one frame
// @funcs StaticSound::process, PlaybackStateManager::update, StartTime::update
// @catches a paused / waiting / stopped sound emitting signal or advancing its transport, sub-frame phase or resampler window
// @requires kv_psm_force.rs
#[kani::proof]
#[kani::unwind(10)]
fn c03_static_frozen_process_is_silent_and_still() {
	let a = KvArenas::empty();
	let info = a.info();
	let (mut sound, _w, _position, _playing, _lp, _tue, _slice, _reverse) = kv_any_sound(1.0, 0.0);
	let which: u8 = kani::any();
	kani::assume(which < 3);
	let st = match which { 0 => PlaybackState::Paused, 1 => PlaybackState::WaitingToResume, _ => PlaybackState::Stopped };
	sound.playback_state_manager = PlaybackStateManager::kv_forced(st, StartTime::Delayed(Duration::from_secs(100)));
	let before = kv_pos(&sound);
	let mut out = [Frame::from_mono(7.0); 1];
	sound.process(&mut out, 1.0, &info);
	assert!(out[0] == Frame::ZERO, "exact silence while Paused / WaitingToResume / Stopped");
	let after = kv_pos(&sound);
	assert!(kv_same(&before, &after), "the position does not advance while frozen");
	assert!(sound.playback_state_manager.playback_state() == st);
	assert!(sound.finished() == (which == 2));
	kani::cover!(which == 0, "w:paused");
	kani::cover!(which == 1, "w:waiting");
	std::mem::forget(sound);
}

// @h prop=C03 tier=quick kind=main timeout=600
// @bounds a sound waiting for its own start time (StartTime::Delayed pending, state Playing) in any transport/resampler state: one process() call
// @funcs StaticSound::process, StartTime::update
// @catches a sound emitting audio or advancing before its start time
#[kani::proof]
#[kani::unwind(10)]
fn c03_static_before_start_time_is_silent_and_still() {
	let a = KvArenas::empty();
	let info = a.info();
	let (mut sound, _w, _position, _playing, _lp, _tue, _slice, _reverse) = kv_any_sound(1.0, 0.0);
	sound.start_time = StartTime::Delayed(Duration::from_secs(100));
	let before = kv_pos(&sound);
	let mut out = [Frame::from_mono(7.0); 1];
	sound.process(&mut out, 1.0, &info);
	assert!(out[0] == Frame::ZERO && kv_same(&before, &kv_pos(&sound)), "silent and still until the start time");
	assert!(sound.start_time == StartTime::Delayed(Duration::from_secs(99)));
	kani::cover!(_playing, "w:playing");
	std::mem::forget(sound);
}

// @h prop=C03,C04 tier=quick kind=main timeout=600
// @bounds seek_to_index(i), i <= 4 symbolic, on a sound in ANY transport/resampler state, in every one of the seven playback states
// @funcs StaticSound::seek_to_index, StaticSound::push_frame_to_resampler, Transport::seek_to
// @catches a seek issued while the sound is frozen pushing a frame into the resampler window (the reported position then creeps by one frame per seek); a seek while playing NOT refreshing the window
// @requires kv_psm_force.rs
#[kani::proof]
#[kani::unwind(10)]
fn c03_static_seek_pushes_a_frame_only_while_advancing() {
	let (mut sound, w, _position, _playing, _lp, tue, _slice, _reverse) = kv_any_sound(1.0, 0.0);
	let sel: u8 = kani::any();
	kani::assume(sel < 7);
	let st = match sel { 0 => PlaybackState::Playing, 1 => PlaybackState::Pausing, 2 => PlaybackState::Paused, 3 => PlaybackState::WaitingToResume, 4 => PlaybackState::Resuming, 5 => PlaybackState::Stopping, _ => PlaybackState::Stopped };
	sound.playback_state_manager = PlaybackStateManager::kv_forced(st, StartTime::Delayed(Duration::from_secs(100)));
	let target: usize = kani::any();
	kani::assume(target <= 4);
	sound.seek_to_index(target);
	let idx = sound.resampler.kv_indices();
	if st.is_advancing() {
		assert!(idx[0] == w[1].index && idx[1] == w[2].index && idx[2] == w[3].index && idx[3] == sound.transport.position, "while audible, the frame sought to is pushed so that it is not skipped");
	} else {
		assert!(idx[0] == w[0].index && idx[1] == w[1].index && idx[2] == w[2].index && idx[3] == w[3].index && sound.resampler.kv_time_until_empty() == tue,
			"a seek issued while the sound is frozen does not touch the window: the position heard does not advance");
	}
	kani::cover!(sel == 2, "w:paused");
	kani::cover!(sel == 0, "w:playing");
	std::mem::forget(sound);
}

// @h prop=C03,C07 tier=quick kind=main timeout=600
// @bounds pause / resume / resume_at / stop applied (as read_commands applies them) to a Stopped sound in any transport/resampler state, then one process() call
// @funcs StaticSound::{pause,resume,stop,process,update_shared_playback_state}, PlaybackStateManager::{pause,resume,stop,update}
// @catches a command resurrecting a stopped sound
// @requires kv_psm_force.rs
#[kani::proof]
#[kani::unwind(10)]
fn c03_static_stopped_ignores_state_commands() {
	let a = KvArenas::empty();
	let info = a.info();
	let (mut sound, _w, _position, _playing, _lp, _tue, _slice, _reverse) = kv_any_sound(1.0, 0.0);
	sound.playback_state_manager = PlaybackStateManager::kv_forced(PlaybackState::Stopped, StartTime::Immediate);
	sound.shared.set_state(PlaybackState::Stopped);
	let cmd: u8 = kani::any();
	kani::assume(cmd < 4);
	match cmd {
		0 => sound.pause(kv_zero_tween()),
		1 => sound.resume(StartTime::Immediate, kv_zero_tween()),
		2 => sound.resume(StartTime::Delayed(Duration::from_secs(1)), kv_zero_tween()),
		_ => sound.stop(kv_zero_tween()),
	}
	let mut out = [Frame::from_mono(7.0); 1];
	sound.process(&mut out, 1.0, &info);
	assert!(out[0] == Frame::ZERO && sound.finished() && sound.shared.state() == PlaybackState::Stopped, "Stopped is permanent and silent");
	kani::cover!(cmd == 1, "w:resume-after-stop");
	std::mem::forget(sound);
}

// ---------------------------------------------------------------------------------------------
// C07: commands are applied exactly once
// ---------------------------------------------------------------------------------------------
// @h prop=C07,C04 tier=quick kind=main timeout=600
// @bounds playing 4-frame looping sound; seek_by(a) / seek_to(p) with symbolic whole-second amounts (|a| <= 3, p <= 3) written once (or twice: last wins), then on_start_processing TWICE
// @funcs StaticSound::{on_start_processing,read_commands,seek_by,seek_to,seek_to_index}, Transport::seek_to, CommandWriter::write, CommandReader::read
// @catches a command applied on every callback (reader not consumed); first of a burst winning; seek landing off target
#[kani::proof]
#[kani::unwind(12)]
fn c07_static_seek_applied_exactly_once() {
	let (mut sound, mut w) = kv_sound((0, 4), StaticSoundSettings::new().loop_region(Some(kv_region(0, 4, true))));
	let p0 = sound.transport.position; // 3 after the pre-fill
	assert!(p0 == 3);
	let by: bool = kani::any();
	let v1: i8 = kani::any();
	let v2: i8 = kani::any();
	let burst: bool = kani::any();
	kani::assume(v1 >= -3 && v1 <= 3 && v2 >= -3 && v2 <= 3);
	if by {
		if burst { w.seek_by.write(v1 as f64); }
		w.seek_by.write(v2 as f64);
	} else {
		kani::assume(v1 >= 0 && v2 >= 0);
		if burst { w.seek_to.write(v1 as f64); }
		w.seek_to.write(v2 as f64);
	}
	sound.on_start_processing();
	let target = if by { (p0 as i64 + v2 as i64) as usize } else { v2 as usize };
	// loop 0..4: forward seeks wrap below 4, backward seeks stay as they are (>= 0 here)
	let want = if target >= 4 && target > p0 { target - 4 } else { target };
	assert!(sound.transport.position == want, "the last command of a burst is applied, once, and lands on the requested frame");
	let heard = sound.resampler.kv_indices();
	sound.on_start_processing();
	let h2 = sound.resampler.kv_indices();
	assert!(sound.transport.position == want && h2[0] == heard[0] && h2[1] == heard[1] && h2[2] == heard[2] && h2[3] == heard[3], "a second drain re-applies nothing");
	kani::cover!(by && burst && v1 != v2, "w:burst");
	kani::cover!(!by && v2 == 3, "w:seek-to-last");
	std::mem::forget(sound); std::mem::forget(w);
}

// @h prop=C07 tier=quick kind=main timeout=600
// @bounds set_volume / set_panning / set_playback_rate commands (fixed targets, 250 ms tween) written before the first callback: each alone, or volume and panning together (symbolic choice); two drains
// @funcs StaticSound::read_commands, Parameter::read_command, Parameter::set
// @catches a setter lost when written before the first callback; different kinds interfering; tween restarted by a second drain
// @requires kv_param_peek.rs
// @requires kv_resampler_peek.rs
#[kani::proof]
#[kani::unwind(6)]
fn c07_static_setters_reach_parameters_once() {
	let (mut sound, mut w) = kv_sound((0, 4), StaticSoundSettings::new().loop_region(Some(kv_region(0, 4, true))));
	let tw = Tween { start_time: StartTime::Immediate, duration: Duration::from_millis(250), easing: crate::Easing::Linear };
	let which: u8 = kani::any();
	kani::assume(which < 4);
	let (sv, sp, sr) = (which == 0 || which == 3, which == 1 || which == 3, which == 2);
	let (v, p, r): (f32, f32, f64) = (-6.0, 0.5, 2.0);
	if sv { w.set_volume.write(ValueChangeCommand { target: Value::Fixed(Decibels(v)), tween: tw }); }
	if sp { w.set_panning.write(ValueChangeCommand { target: Value::Fixed(Panning(p)), tween: tw }); }
	if sr { w.set_playback_rate.write(ValueChangeCommand { target: Value::Fixed(PlaybackRate(r)), tween: tw }); }
	sound.read_commands();
	assert!(sound.volume.kv_fixed_tween_target() == if sv { Some(Decibels(v)) } else { None });
	assert!(sound.panning.kv_fixed_tween_target() == if sp { Some(Panning(p)) } else { None });
	assert!(sound.playback_rate.kv_fixed_tween_target() == if sr { Some(PlaybackRate(r)) } else { None });
	// a second drain finds nothing: every command was consumed exactly once
	assert!(sound.command_readers.set_volume.read().is_none() && sound.command_readers.set_panning.read().is_none() && sound.command_readers.set_playback_rate.read().is_none(),
		"each command is delivered once: a second drain re-applies nothing");
	kani::cover!(sv && sp, "w:two-kinds-together");
	kani::cover!(!sv && sp, "w:one-kind");
	std::mem::forget(sound); std::mem::forget(w);
}

// ---------------------------------------------------------------------------------------------
// C04 inductively: (A) what StaticSound::new leaves behind, (B) one callback from ANY state
// ---------------------------------------------------------------------------------------------
fn kv_small() -> f32 { let v: i8 = kani::any(); kani::assume(v >= -8 && v <= 8); v as f32 }

/// a StaticSound in an arbitrary mid-playback state (struct literal: private fields are visible here)
fn kv_any_sound(rate: f64, frac: f64) -> (StaticSound, [RecentFrameView; 4], usize, bool, Option<(usize, usize)>, usize, (usize, usize), bool) {
	let s0: usize = kani::any();
	let s1: usize = kani::any();
	kani::assume(s0 < s1 && s1 <= KV_N);
	let n = s1 - s0;
	let position: usize = kani::any();
	let playing: bool = kani::any();
	kani::assume(position <= n && (!playing || position < n));
	let reverse: bool = kani::any();
	let has_loop: bool = kani::any();
	let (ls, le): (usize, usize) = (kani::any(), kani::any());
	kani::assume(ls < le && le <= n);
	// the transport invariant that Transport::new / the step itself maintain
	kani::assume(!has_loop || !playing || (if reverse { position >= ls } else { position < le }));
	let lp = if has_loop { Some((ls, le)) } else { None };
	let tue: usize = kani::any();
	kani::assume(tue <= 4);
	let w = [RecentFrameView::any(), RecentFrameView::any(), RecentFrameView::any(), RecentFrameView::any()];
	let (_wr, readers) = command_writers_and_readers();
	std::mem::forget(_wr);
	let sound = StaticSound {
		command_readers: readers,
		sample_rate: 1,
		frames: kv_frames(),
		slice: Some((s0, s1)),
		reverse,
		playback_state_manager: PlaybackStateManager::new(None),
		start_time: StartTime::Immediate,
		resampler: Resampler::kv_from([(w[0].frame, w[0].index), (w[1].frame, w[1].index), (w[2].frame, w[2].index), (w[3].frame, w[3].index)], tue),
		transport: Transport { position, loop_region: lp, playing },
		fractional_position: frac,
		volume: Parameter::new(Value::Fixed(Decibels::IDENTITY), Decibels::IDENTITY),
		playback_rate: Parameter::new(Value::Fixed(PlaybackRate(rate)), PlaybackRate(1.0)),
		panning: Parameter::new(Value::Fixed(Panning::CENTER), Panning::CENTER),
		shared: Arc::new(Shared { state: AtomicU8::new(PlaybackState::Playing as u8), position: AtomicU64::new(0) }),
	};
	(sound, w, position, playing, lp, tue, (s0, s1), reverse)
}
#[derive(Clone, Copy)]
struct RecentFrameView { frame: Frame, index: usize }
impl RecentFrameView { fn any() -> Self { RecentFrameView { frame: Frame::new(kv_small(), kv_small()), index: kani::any() } } }

/// the reference for ONE update_position: returns (pushed frame, pushed index, new position, new playing, new time_until_empty)
fn kv_ref_update(position: usize, playing: bool, lp: Option<(usize, usize)>, tue: usize, slice: (usize, usize), backwards: bool) -> (Frame, usize, usize, bool, usize) {
	let n = slice.1 - slice.0;
	let pushed = if playing && position < n { Frame::from_mono((slice.0 + position + 1) as f32) } else { Frame::ZERO };
	let tue2 = if playing { 4 } else if tue == 0 { 0 } else { tue - 1 };
	let (p2, pl2) = if backwards { kv_ref_dec(position, playing, lp) } else { kv_ref_inc(position, playing, lp, n) };
	(pushed, position, p2, pl2, tue2)
}

// @h prop=C04,C01,C11,C03 tier=quick kind=main timeout=600
// @bounds ONE callback of one frame at rate +1 (device rate == sound rate) from ANY state: any slice of the 4-frame buffer, any transport position/playing flag/loop region satisfying the transport invariant, forwards or reverse, any resampler window (small-integer frames, arbitrary indices), any drain counter
// @funcs StaticSound::process, StaticSound::update_position, StaticSound::push_frame_to_resampler, StaticSound::is_playing_backwards, Resampler::{get,push_frame,empty,current_frame_index}, Transport::{increment_position,decrement_position}, frame_at_index, num_frames, interpolate_frame, Frame::panned, Decibels::as_amplitude
// @catches output not the frame in window slot 1 (added latency / wrong slot); pushed frame read relative to the buffer instead of the slice or outside it; position stepped twice or not at all; Stopped reported early/late; drain counter off by one
// @requires kv_resampler_peek.rs
#[kani::proof]
#[kani::unwind(10)]
fn c04_static_one_callback_from_any_state() {
	let a = KvArenas::empty();
	let info = a.info();
	let (mut sound, w, position, playing, lp, tue, slice, reverse) = kv_any_sound(1.0, 0.0);
	let mut out = [Frame::ZERO; 1];
	sound.process(&mut out, 1.0, &info);
	assert!(out[0].left.to_bits() == w[1].frame.left.to_bits() && out[0].right.to_bits() == w[1].frame.right.to_bits(),
		"at rate 1 the output is bit-exactly the frame being heard (window slot 1)");
	let (pushed, pidx, p2, pl2, tue2) = kv_ref_update(position, playing, lp, tue, slice, reverse);
	let idx = sound.resampler.kv_indices();
	let fr = sound.resampler.kv_frames();
	assert!(idx[0] == w[1].index && idx[1] == w[2].index && idx[2] == w[3].index && idx[3] == pidx, "the window shifts by exactly one frame");
	assert!(fr[0] == w[1].frame && fr[1] == w[2].frame && fr[2] == w[3].frame && fr[3] == pushed, "the pushed frame is the source frame at the transport position, inside the slice");
	assert!(sound.transport.position == p2 && sound.transport.playing == pl2, "the transport advances by exactly one frame in the playing direction");
	assert!(sound.resampler.kv_time_until_empty() == tue2);
	assert!(sound.fractional_position == 0.0);
	assert!(sound.finished() == (!pl2 && tue2 == 0), "Stopped exactly when the end was reached and the window has drained");
	assert!(sound.shared.state() == if sound.finished() { PlaybackState::Stopped } else { PlaybackState::Playing });
	// liveness, inductively: without a loop region a ranking function strictly decreases with every frame until Stopped
	if lp.is_none() {
		let n = slice.1 - slice.0;
		let rank = |pos: usize, pl: bool, t: usize| if pl { (if reverse { pos } else { n - pos }) + 6 } else { t };
		let before = rank(position, playing, tue);
		let after = rank(p2, pl2, tue2);
		assert!(sound.finished() == (after == 0) && (before == 0 || after < before), "every finite non-looping sound reaches Stopped: the distance to it shrinks with every frame");
	}
	kani::cover!(playing && reverse && lp.is_some(), "w:reverse-loop");
	kani::cover!(!playing && tue == 1, "w:last-drain-step");
	kani::cover!(playing && !reverse && position + 1 == slice.1 - slice.0, "w:reaches-end");
	std::mem::forget(sound);
}

static mut KV_IF_ARGS: (f32, u32) = (0.0, 0);
fn kv_interpolate_frame_spy(previous: Frame, current: Frame, next_1: Frame, next_2: Frame, fraction: f32) -> Frame {
	unsafe { KV_IF_ARGS = (fraction, KV_IF_ARGS.1 + 1); KV_IF_W = [previous, current, next_1, next_2]; }
	let r = Frame::new(kani::any(), kani::any());
	unsafe { KV_IF_R = r; }
	r
}
static mut KV_IF_W: [Frame; 4] = [Frame::ZERO; 4];
static mut KV_IF_R: Frame = Frame::ZERO;

fn kv_fractional_body(rate: f64, frac: f64) {
	let a = KvArenas::empty();
	let info = a.info();
	let (mut sound, w, position, playing, lp, tue, slice, reverse) = kv_any_sound(rate, frac);
	let mut out = [Frame::ZERO; 1];
	sound.process(&mut out, 1.0, &info);
	let backwards = reverse != (rate < 0.0);
	let total = frac + rate.abs();
	let steps = total as usize; // floor
	if cfg!(kv_native) {
		// native replay oracle: the real interpolation of the four window frames
		let want = crate::frame::interpolate_frame(w[0].frame, w[1].frame, w[2].frame, w[3].frame, frac as f32);
		assert!(out[0] == want, "native: output is the 4-point interpolation at the accumulated position");
	} else { unsafe {
		assert!(KV_IF_ARGS.1 == 1 && KV_IF_ARGS.0 == frac as f32, "one 4-point interpolation at the accumulated sub-frame position");
		assert!(KV_IF_W[0] == w[0].frame && KV_IF_W[1] == w[1].frame && KV_IF_W[2] == w[2].frame && KV_IF_W[3] == w[3].frame, "over the four frames around the position");
		if !KV_IF_R.left.is_nan() && !KV_IF_R.right.is_nan() { assert!(out[0].left == KV_IF_R.left * 1.0 * 1.0 && out[0].right == KV_IF_R.right * 1.0 * 1.0); }
	} }
	assert!(sound.fractional_position == total - steps as f64, "the sub-frame phase returns to [0,1)");
	// the transport moved floor(frac + |rate|) frames
	let (mut p, mut pl, mut t) = (position, playing, tue);
	let mut k = 0;
	while k < steps { let r = kv_ref_update(p, pl, lp, t, slice, backwards); p = r.2; pl = r.3; t = r.4; k += 1; }
	assert!(sound.transport.position == p && sound.transport.playing == pl && sound.resampler.kv_time_until_empty() == t, "position accumulates rate x source-rate x dt");
	kani::cover!(playing && steps >= 1, "w:stepped");
	std::mem::forget(sound);
}

// @h prop=C04,C11 tier=quick kind=main timeout=600
// @bounds one callback from ANY state (as above) at playback rate 1/2 with sub-frame phase 0 or 1/2
// @funcs StaticSound::process, StaticSound::update_position, Resampler::get
// @assume interpolate_frame replaced by a recording stand-in (its end points are checked by c04_interpolate_frame_endpoints)
// @catches phase accumulated with the wrong rate or after the interpolation; interpolating the wrong four frames; stepping on every callback regardless of rate
#[kani::proof]
#[kani::unwind(10)]
#[kani::stub(crate::frame::interpolate_frame, kv_interpolate_frame_spy)]
fn c04_static_half_rate_step() { let h: bool = kani::any(); kv_fractional_body(0.5, if h { 0.5 } else { 0.0 }); }

// @h prop=C04,C11 tier=quick kind=main timeout=600
// @bounds one callback from ANY state at playback rate 2 (two source frames per output frame) and at rate -1 (direction flips), phase 0
// @funcs StaticSound::process, StaticSound::update_position, StaticSound::is_playing_backwards
// @assume interpolate_frame replaced by a recording stand-in
#[kani::proof]
#[kani::unwind(10)]
#[kani::stub(crate::frame::interpolate_frame, kv_interpolate_frame_spy)]
fn c04_static_double_and_negative_rate_step() { let d: bool = kani::any(); kv_fractional_body(if d { 2.0 } else { -1.0 }, 0.0); }

// @h prop=C04,C01 tier=quick kind=main timeout=600
// @bounds StaticSound::new for ANY slice of the 4-frame buffer, any start position < n, reverse on/off, any loop region inside the slice (or open-ended)
// @funcs StaticSound::new, Transport::new, Resampler::new, StaticSound::update_position (x3)
// @catches pre-fill of the wrong number of frames (latency), start position not slice-relative, reverse start from the unsliced length, loop end from the unsliced length, reported start position
// @requires kv_resampler_peek.rs
#[kani::proof]
#[kani::unwind(10)]
fn c04_static_new_prefills_three_frames_from_start() {
	let s0: usize = kani::any();
	let s1: usize = kani::any();
	kani::assume(s0 < s1 && s1 <= KV_N);
	let n = s1 - s0;
	let start: usize = kani::any();
	kani::assume(start < n);
	let reverse: bool = kani::any();
	let looping: bool = kani::any();
	let (ls, le, to_end): (usize, usize, bool) = (kani::any(), kani::any(), kani::any());
	let mut settings = StaticSoundSettings::new().start_position(PlaybackPosition::Samples(start)).reverse(reverse);
	let mut lp = None;
	if looping {
		let eff_le = if to_end { n } else { le };
		kani::assume(ls < eff_le && eff_le <= n);
		settings.loop_region = Some(kv_region(ls, le, to_end));
		lp = Some((ls, eff_le));
	}
	let (sound, _w) = kv_sound((s0, s1), settings);
	assert!(sound.transport.loop_region == lp, "the loop region is slice-relative and an open end is the end of the slice");
	let p0 = if reverse { n - 1 - start } else { start };
	let r1 = kv_ref_update(p0, true, lp, 0, (s0, s1), reverse);
	let r2 = kv_ref_update(r1.2, r1.3, lp, r1.4, (s0, s1), reverse);
	let r3 = kv_ref_update(r2.2, r2.3, lp, r2.4, (s0, s1), reverse);
	let idx = sound.resampler.kv_indices();
	let fr = sound.resampler.kv_frames();
	assert!(fr[0] == Frame::ZERO && idx[0] == p0, "slot 0 is the silent 'previous' frame");
	assert!(fr[1] == r1.0 && idx[1] == r1.1, "the frame heard first (slot 1) is the requested start frame: no added latency");
	assert!(fr[2] == r2.0 && idx[2] == r2.1 && fr[3] == r3.0 && idx[3] == r3.1);
	assert!(sound.transport.position == r3.2 && sound.transport.playing == r3.3 && sound.resampler.kv_time_until_empty() == r3.4);
	assert!(sound.fractional_position == 0.0 && !sound.finished());
	assert!(sound.shared.position() == p0 as f64, "the reported position is the start frame");
	kani::cover!(reverse && s0 > 0 && start > 0, "w:reverse-sliced");
	kani::cover!(looping && to_end && s1 < KV_N, "w:open-loop-on-slice");
	std::mem::forget(sound); std::mem::forget(_w);
}

// ---------------------------------------------------------------------------------------------
// C01 findings (expected to FAIL exactly as listed in KNOWN_FINDINGS.txt)
// ---------------------------------------------------------------------------------------------
// @h prop=C01 tier=quick kind=finding:F5 timeout=600
// @bounds one callback of one frame at an absurd but finite playback rate (1e18) on a looping sound: the per-frame stepping loop `while fractional_position >= 1.0` must terminate within 8 iterations
// @funcs StaticSound::process
// @catches (finding F5) the audio callback not returning: 1e18 - 1.0 == 1e18 in f64, the loop never ends
#[kani::proof]
#[kani::unwind(9)]
fn c01_find_static_huge_rate_loop_unbounded() {
	let a = KvArenas::empty();
	let info = a.info();
	let (mut sound, _w) = kv_sound((0, 4), StaticSoundSettings { playback_rate: Value::Fixed(PlaybackRate(1.0e18)), ..StaticSoundSettings::new().loop_region(Some(kv_region(0, 4, true))) });
	let mut out = [Frame::ZERO; 1];
	sound.process(&mut out, 1.0, &info);
	kani::cover!(true, "w:returned");
	std::mem::forget(sound); std::mem::forget(_w);
}

include!(concat!(env!("KV_HARNESS_DIR"), "/lib/libm.rs"));
// @h prop=C01,C19 tier=quick kind=main timeout=600
// @bounds a silent frame played at a finite but absurd volume (+1000 dB): the amplitude must not overflow to +inf (inf * 0 is NaN)
// @funcs StaticSound::process, Decibels::as_amplitude
// @assume powf contract stub (10^50 may be +inf, as it is natively in f32)
// @catches F6 (fixed by 66fc0a0): NaN written to the output for finite arguments
#[kani::proof]
#[kani::unwind(6)]
#[kani::stub(f32::powf, kv_powf32)]
fn c01_huge_volume_on_silence_is_not_nan() {
	let a = KvArenas::empty();
	let info = a.info();
	let data = StaticSoundData { sample_rate: 1, frames: vec![Frame::ZERO; 4].into(), settings: StaticSoundSettings::new().volume(Decibels(1000.0)), slice: None };
	let (w, r) = command_writers_and_readers();
	let mut sound = StaticSound::new(data, r);
	let mut out = [Frame::ZERO; 1];
	sound.process(&mut out, 1.0, &info);
	assert!(!out[0].left.is_nan() && !out[0].right.is_nan(), "every sample written is a finite number");
	kani::cover!(true, "w:reached");
	std::mem::forget(sound); std::mem::forget(w);
}

// ---------------------------------------------------------------------------------------------
// C11: the same two frames rendered as one chunk of 2 or as two chunks of 1
// ---------------------------------------------------------------------------------------------
fn kv_clone_sound(s: &StaticSound) -> StaticSound {
	let (_wr, readers) = command_writers_and_readers();
	std::mem::forget(_wr);
	let ix = s.resampler.kv_indices();
	let fr = s.resampler.kv_frames();
	StaticSound {
		command_readers: readers, sample_rate: s.sample_rate, frames: s.frames.clone(), slice: s.slice, reverse: s.reverse,
		playback_state_manager: PlaybackStateManager::new(None), start_time: StartTime::Immediate,
		resampler: Resampler::kv_from([(fr[0], ix[0]), (fr[1], ix[1]), (fr[2], ix[2]), (fr[3], ix[3])], s.resampler.kv_time_until_empty()),
		transport: Transport { position: s.transport.position, loop_region: s.transport.loop_region, playing: s.transport.playing },
		fractional_position: s.fractional_position,
		volume: Parameter::new(Value::Fixed(Decibels::IDENTITY), Decibels::IDENTITY),
		playback_rate: Parameter::new(Value::Fixed(s.playback_rate.value()), PlaybackRate(1.0)),
		panning: Parameter::new(Value::Fixed(Panning::CENTER), Panning::CENTER),
		shared: Arc::new(Shared { state: AtomicU8::new(PlaybackState::Playing as u8), position: AtomicU64::new(0) }),
	}
}

// @h prop=C11,C04 tier=quick kind=main timeout=900
// @bounds a StaticSound in any PLAYING transport/resampler state at rate 1: two frames rendered by one process() call of 2 frames vs two calls of 1 frame: identical output and identical final state
// @funcs StaticSound::process
// @catches any dependence of the rendered audio or of the sound's state on where the chunk boundary falls (per-chunk rounding, state advanced per call instead of per frame, time_in_chunk misuse)
#[kani::proof]
#[kani::unwind(10)]
fn c11_static_two_frames_one_chunk_or_two() {
	let a = KvArenas::empty();
	let info = a.info();
	let (mut s1, _w, _position, _playing, _lp, _tue, _slice, _reverse) = kv_any_sound(1.0, 0.0);
	// mid-playback states. (While the window drains after the end, kv_any_sound's window contents are not tied to
	// the drain counter, and the callback in which Stopped is reached is finished to its end by design: first
	// version of this harness raised a false alarm there.)
	kani::assume(_playing);
	let mut s2 = kv_clone_sound(&s1);
	let mut o1 = [Frame::ZERO; 2];
	s1.process(&mut o1, 1.0, &info);
	let mut o2a = [Frame::ZERO; 1];
	let mut o2b = [Frame::ZERO; 1];
	s2.process(&mut o2a, 1.0, &info);
	s2.process(&mut o2b, 1.0, &info);
	assert!(o1[0] == o2a[0] && o1[1] == o2b[0], "the rendered audio does not depend on how the callback is partitioned");
	assert!(kv_same(&kv_pos(&s1), &kv_pos(&s2)) && s1.finished() == s2.finished() && s1.resampler.kv_time_until_empty() == s2.resampler.kv_time_until_empty(), "nor does the sound's state afterwards");
	kani::cover!(_playing && _lp.is_some(), "w:looping");
	kani::cover!(_position + 1 == _slice.1 - _slice.0 && _lp.is_none(), "w:reaches-end-inside-the-two-frames");
	std::mem::forget(s1); std::mem::forget(s2);
}

// ---------------------------------------------------------------------------------------------
// C05: a sound scheduled on a clock time starts in the chunk in which the clock reaches it
// ---------------------------------------------------------------------------------------------
// @h prop=C05,C03 tier=quick kind=main timeout=600
// @bounds a StaticSound in any playing transport/resampler state waiting on StartTime::ClockTime(target) over a real Arena<Clock> of capacity 1: clock present or gone, ticking or paused, clock time and target symbolic (ticks <= 2^40, fractions in [0,1)); one callback of one frame
// @funcs StaticSound::process, StartTime::update, Info::when_to_start
// @catches a scheduled sound starting early (clock still short of the time at the end of the buffer, or paused), starting a buffer late (not in the buffer in which the clock has reached the time), or not being cancelled when the clock no longer exists
// @requires kv_clock_force.rs
#[kani::proof]
#[kani::unwind(10)]
fn c05_scheduled_sound_starts_in_the_buffer_in_which_the_clock_reaches_its_time() {
	let (mut sound, w, _position, _playing, _lp, _tue, _slice, _reverse) = kv_any_sound(1.0, 0.0);
	let mut clocks: Arena<Clock> = Arena::new(1);
	let key = clocks.controller().try_reserve().unwrap();
	let id = crate::clock::ClockId(key);
	let (present, ticking): (bool, bool) = (kani::any(), kani::any());
	let (ticks, tt): (u64, u64) = (kani::any(), kani::any());
	let (fraction, tf): (f64, f64) = (kani::any(), kani::any());
	kani::assume(ticks <= (1 << 40) && tt <= (1 << 40) && fraction >= 0.0 && fraction < 1.0 && tf >= 0.0 && tf < 1.0);
	if present {
		let mut c = Clock::without_handle(Value::Fixed(crate::clock::ClockSpeed::TicksPerSecond(1.0)));
		c.kv_force(ticking, ticks, fraction);
		let r = clocks.insert_with_key(key, c); std::mem::forget(r);
	}
	let a = KvArenas::empty();
	let info = Info::new(&clocks, &a.1, &a.2, None);
	sound.start_time = StartTime::ClockTime(crate::clock::ClockTime { clock: id, ticks: tt, fraction: tf });
	let before = kv_pos(&sound);
	let mut out = [Frame::new(7.0, 7.0); 1];
	sound.process(&mut out, 1.0, &info);
	let reached = ticks > tt || (ticks == tt && fraction >= tf);
	if !present {
		assert!(out[0] == Frame::ZERO && sound.finished(), "scheduled on a clock that no longer exists: cancelled (Stopped)");
	} else if ticking && reached {
		assert!(out[0] == w[1].frame && sound.start_time == StartTime::Immediate, "starts in the very buffer in which the clock has reached the time");
	} else {
		assert!(out[0] == Frame::ZERO && kv_same(&before, &kv_pos(&sound)) && !sound.finished(), "never early: silent and still while the clock is short of the time or paused");
	}
	kani::cover!(present && ticking && ticks == tt && fraction == tf, "w:exactly-on-time");
	kani::cover!(present && !ticking && reached, "w:reached-but-paused");
	std::mem::forget(sound); std::mem::forget(clocks);
}

// ---------------------------------------------------------------------------------------------
// C16: one second of a sound is one second at every device rate
// ---------------------------------------------------------------------------------------------
// @h prop=C16,C04 tier=quick kind=main timeout=900
// @bounds a StaticSound (source rate 1 Hz) in any playing state rendered for the same span of time on a 1 Hz device (one frame, dt = 1) and on a 2 Hz or 4 Hz device (2 or 4 frames, dt = 1/2 or 1/4; symbolic choice): the source position reached is the same
// @funcs StaticSound::process
// @catches the per-frame step not scaled by dt (a sound playing faster on a faster device): sounds keep their pitch and duration at every device sample rate
#[kani::proof]
#[kani::unwind(10)]
fn c16_static_sound_covers_the_same_source_time_at_every_device_rate() {
	let a = KvArenas::empty();
	let info = a.info();
	let (mut s1, _w, _position, playing, _lp, _tue, _slice, _reverse) = kv_any_sound(1.0, 0.0);
	kani::assume(playing);
	let mut s2 = kv_clone_sound(&s1);
	let mut o1 = [Frame::ZERO; 1];
	s1.process(&mut o1, 1.0, &info);
	let fast: bool = kani::any();
	if fast { let mut o = [Frame::ZERO; 4]; s2.process(&mut o, 0.25, &info); } else { let mut o = [Frame::ZERO; 2]; s2.process(&mut o, 0.5, &info); }
	assert!(kv_same(&kv_pos(&s1), &kv_pos(&s2)), "after the same elapsed time the sound is at the same source frame whatever the device rate");
	kani::cover!(fast, "w:4Hz-device");
	std::mem::forget(s1); std::mem::forget(s2);
}

// @h prop=C03,C07 tier=quick kind=main timeout=900
// @bounds a static sound in any transport/resampler state and ANY live playback state; in ONE callback interval the handle issued stop() together with pause() and/or resume()/resume_at() (any subset, symbolic); one on_start_processing
// @funcs StaticSound::on_start_processing, StaticSound::read_commands, StaticSound::{pause,resume,stop}, PlaybackStateManager::{pause,resume,stop}
// @catches stop() being overridden by a pause or resume issued in the same callback interval (the sound would never reach Stopped): the twin of c03_streaming_stop_wins_over_pause_and_resume_in_the_same_interval
// @requires kv_psm_force.rs
#[kani::proof]
#[kani::unwind(10)]
fn c03_static_stop_wins_over_pause_and_resume_in_the_same_interval() {
	let (mut sound, _w, _position, _playing, _lp, _tue, _slice, _reverse) = kv_any_sound(1.0, 0.0);
	let (mut w, readers) = command_writers_and_readers();
	let old = std::mem::replace(&mut sound.command_readers, readers);
	std::mem::forget(old);
	let sel: u8 = kani::any();
	kani::assume(sel < 6);
	let st = match sel { 0 => PlaybackState::Playing, 1 => PlaybackState::Pausing, 2 => PlaybackState::Paused, 3 => PlaybackState::WaitingToResume, 4 => PlaybackState::Resuming, _ => PlaybackState::Stopping };
	sound.playback_state_manager = PlaybackStateManager::kv_forced(st, StartTime::Delayed(Duration::from_secs(100)));
	sound.shared.set_state(st);
	let tw = Tween { start_time: StartTime::Immediate, duration: Duration::from_millis(250), easing: crate::Easing::Linear };
	let with_pause: bool = kani::any();
	let with_resume: u8 = kani::any();
	kani::assume(with_resume < 3);
	if with_pause { w.pause.write(tw); }
	if with_resume == 1 { w.resume.write((StartTime::Immediate, tw)); }
	if with_resume == 2 { w.resume.write((StartTime::Delayed(Duration::from_secs(5)), tw)); }
	w.stop.write(tw);
	sound.on_start_processing();
	assert!(sound.playback_state_manager.playback_state() == PlaybackState::Stopping, "a stop issued in this interval leaves the sound Stopping, whatever else was issued with it");
	assert!(sound.shared.state() == PlaybackState::Stopping, "and the handle reports it");
	kani::cover!(with_pause && sel == 0, "w:pause+stop while playing");
	kani::cover!(with_resume == 1 && sel == 2, "w:resume+stop while paused");
	std::mem::forget(sound); std::mem::forget(w);
}
