// @append src/sound/transport.rs
// C04 (and the termination part of C01): one-step harnesses over the integer transport.
// The pre-state is symbolic under the representation invariant, so one step covers
// histories of any length.

use crate::sound::PlaybackPosition;

fn kv_region(ls: usize, le: Option<usize>) -> Region {
	Region {
		start: PlaybackPosition::Samples(ls),
		end: match le {
			Some(le) => EndPosition::Custom(PlaybackPosition::Samples(le)),
			None => EndPosition::EndOfAudio,
		},
	}
}

// @h prop=C04 tier=quick kind=main
// @bounds full usize width for num_frames/start/loop bounds; start < num_frames; any loop region incl. empty, inverted, beyond the end
// @funcs Transport::new, PlaybackPosition::into_samples
// @catches reverse start off by one; EndOfAudio mapped to n-1; start not inside [0,n)
#[kani::proof]
#[kani::unwind(2)]
fn c04_transport_new_lands_in_range() {
	let n: usize = kani::any();
	let start: usize = kani::any();
	kani::assume(n >= 1 && start < n);
	let reverse: bool = kani::any();
	let has_loop: bool = kani::any();
	let ls: usize = kani::any();
	let le: usize = kani::any();
	let end_of_audio: bool = kani::any();
	let region = if has_loop { Some(kv_region(ls, if end_of_audio { None } else { Some(le) })) } else { None };
	let t = Transport::new(start, region, reverse, 48000, n);
	assert!(t.playing);
	assert!(t.position < n);
	if reverse {
		assert!(t.position == n - 1 - start);
	} else {
		assert!(t.position == start);
	}
	if let Some((a, b)) = t.loop_region {
		// whatever region is kept, it is one on which the wrap loops terminate
		assert!(a < b, "kept loop region is non-empty");
	}
	if has_loop && ls < (if end_of_audio { n } else { le }) {
		assert!(t.loop_region == Some((ls, if end_of_audio { n } else { le })));
	}
	kani::cover!(reverse && has_loop && end_of_audio, "w:reverse+loop-to-end");
	kani::cover!(has_loop && !end_of_audio && le <= ls, "w:empty-or-inverted-region-requested");
}

// @h prop=C04 tier=quick kind=main
// @bounds num_frames of any size incl. 0 with reverse (start 0)
// @funcs Transport::new
// @catches underflow of num_frames-1-start on an empty sound (F7)
#[kani::proof]
#[kani::unwind(2)]
fn c04_transport_new_empty_sound_no_panic() {
	let reverse: bool = kani::any();
	let t = Transport::new(0, None, reverse, 1, 0);
	assert!(t.position == 0);
	kani::cover!(reverse, "w:reverse-empty");
}

// @h prop=C04,C01 tier=quick kind=main
// @bounds full usize width; invariant: playing => position < n; region as stored by new()/set_loop_region(); position < loop_end (inside or before the loop)
// @funcs Transport::increment_position
// @catches loop_end made inclusive; wrap landing on loop_start+1; end detection off by one; more than one wrap iteration
#[kani::proof]
#[kani::unwind(3)]
fn c04_transport_increment_step() {
	let n: usize = kani::any();
	let position: usize = kani::any();
	let playing: bool = kani::any();
	kani::assume(!playing || position < n);
	let has_loop: bool = kani::any();
	let ls: usize = kani::any();
	let le: usize = kani::any();
	kani::assume(ls < le);
	kani::assume(!has_loop || position < le);
	let mut t = Transport { position, loop_region: if has_loop { Some((ls, le)) } else { None }, playing };
	t.increment_position(n);
	if !playing {
		assert!(t.position == position && !t.playing);
	} else if has_loop && position + 1 == le {
		assert!(t.position == ls, "wraps from loop_end-1 straight to loop_start");
		assert!(t.playing == (ls < n));
	} else {
		assert!(t.position == position + 1);
		assert!(t.playing == (position + 1 < n), "stops exactly at the end");
	}
	assert!(!t.playing || t.position < n);
	kani::cover!(playing && has_loop && position + 1 == le && le == n, "w:wrap-at-end-of-audio");
	kani::cover!(playing && !has_loop && position + 1 == n, "w:reach-end");
}

// @h prop=C04,C01 tier=quick kind=main
// @bounds n <= 8; start position AFTER the loop end allowed; any stored region with ls < le
// @funcs Transport::increment_position
// @catches non-terminating wrap loop; wrap leaving [loop_start, loop_end)
#[kani::proof]
#[kani::unwind(10)]
fn c04_transport_increment_after_loop_small() {
	let n: usize = kani::any();
	kani::assume(n <= 8);
	let position: usize = kani::any();
	kani::assume(position < n);
	let ls: usize = kani::any();
	let le: usize = kani::any();
	kani::assume(ls < le && le <= n);
	let mut t = Transport { position, loop_region: Some((ls, le)), playing: true };
	t.increment_position(n);
	assert!(t.playing && t.position < le);
	if position + 1 >= le {
		assert!(t.position >= ls, "wrapped into the loop");
		assert!((position + 1 - t.position) % (le - ls) == 0);
	}
	kani::cover!(position > le, "w:start-after-loop");
}

// @h prop=C04,C01 tier=quick kind=main
// @bounds full usize width; playing => position < n; stored region ls < le <= n; position >= ls when looping (inside/after the loop)
// @funcs Transport::decrement_position
// @catches reverse wrap landing on loop_end instead of loop_end-1; stop at 0 missed
#[kani::proof]
#[kani::unwind(3)]
fn c04_transport_decrement_step() {
	let n: usize = kani::any();
	let position: usize = kani::any();
	let playing: bool = kani::any();
	kani::assume(!playing || position < n);
	let has_loop: bool = kani::any();
	let ls: usize = kani::any();
	let le: usize = kani::any();
	kani::assume(ls < le && le <= n);
	kani::assume(!has_loop || position >= ls);
	let mut t = Transport { position, loop_region: if has_loop { Some((ls, le)) } else { None }, playing };
	t.decrement_position();
	if !playing {
		assert!(t.position == position && !t.playing);
	} else if has_loop && position == ls {
		assert!(t.position == le - 1 && t.playing, "wraps from loop_start to loop_end-1");
	} else if position == 0 {
		assert!(!t.playing && t.position == 0, "stops at the start");
	} else {
		assert!(t.position == position - 1 && t.playing);
	}
	assert!(!t.playing || t.position < n);
	kani::cover!(playing && has_loop && position == ls && ls == 0, "w:wrap-at-zero");
	kani::cover!(playing && !has_loop && position == 0, "w:reach-start");
}

// @h prop=C04,C01 tier=quick kind=main
// @bounds n <= 8; position before the loop start (reverse playback started before the loop)
// @funcs Transport::decrement_position
#[kani::proof]
#[kani::unwind(10)]
fn c04_transport_decrement_before_loop_small() {
	let n: usize = kani::any();
	kani::assume(n <= 8);
	let position: usize = kani::any();
	kani::assume(position < n);
	let ls: usize = kani::any();
	let le: usize = kani::any();
	kani::assume(ls < le && le <= n);
	kani::assume(position <= ls);
	let mut t = Transport { position, loop_region: Some((ls, le)), playing: true };
	t.decrement_position();
	assert!(t.playing && t.position >= ls && t.position < le);
	kani::cover!(position < ls, "w:before-loop");
}

// @h prop=C04 tier=quick kind=main
// @bounds n <= 8, target <= 16; stored region ls < le <= n
// @funcs Transport::seek_to
// @catches seek not wrapped into the loop; seek past the end not stopping
#[kani::proof]
#[kani::unwind(18)]
fn c04_transport_seek_to_small() {
	let n: usize = kani::any();
	kani::assume(n >= 1 && n <= 8);
	let position: usize = kani::any();
	kani::assume(position < n);
	let has_loop: bool = kani::any();
	let ls: usize = kani::any();
	let le: usize = kani::any();
	kani::assume(ls < le && le <= n);
	let target: usize = kani::any();
	kani::assume(target <= 16);
	let mut t = Transport { position, loop_region: if has_loop { Some((ls, le)) } else { None }, playing: true };
	t.seek_to(target, n);
	if !has_loop {
		assert!(t.position == target);
		assert!(t.playing == (target < n));
	} else if target > position {
		// forward seek: wrapped below loop_end
		assert!(t.position < le && t.playing);
		if target < le { assert!(t.position == target); } else { assert!(t.position >= ls && (target - t.position) % (le - ls) == 0); }
	} else {
		// backward seek: wrapped to at least loop_start
		assert!(t.position >= ls);
		if target >= ls { assert!(t.position == target); } else { assert!(t.position < le && (t.position - target) % (le - ls) == 0); }
		assert!(t.playing == (t.position < n));
	}
	kani::cover!(has_loop && target >= le && target > position, "w:forward-past-loop-end");
	kani::cover!(has_loop && target < ls && target <= position, "w:backward-before-loop-start");
}

// @h prop=C04,C01 tier=quick kind=main
// @bounds full usize width positions; ANY requested region (empty, inverted, out of range) via set_loop_region, then one increment and one decrement from a valid position
// @funcs Transport::set_loop_region, Transport::increment_position, Transport::decrement_position
// @catches F1: empty / inverted loop region hanging or overflowing the audio thread
#[kani::proof]
#[kani::unwind(4)]
fn c04_transport_set_region_then_step_terminates() {
	let n: usize = kani::any();
	let position: usize = kani::any();
	kani::assume(n >= 1 && position < n);
	let ls: usize = kani::any();
	let le: usize = kani::any();
	let end_of_audio: bool = kani::any();
	let mut t = Transport { position, loop_region: None, playing: true };
	t.set_loop_region(Some(kv_region(ls, if end_of_audio { None } else { Some(le) })), 48000, n);
	let eff_le = if end_of_audio { n } else { le };
	// what makes the wrap loops terminate (asserted as a state fact so that a violation replays natively as an
	// assertion failure; the hang itself shows up as an unwinding-assertion failure, which has no concrete trace)
	assert!(t.loop_region.map_or(true, |(a, b)| a < b), "a loop region that is kept is non-empty: the wrap loops terminate");
	if ls < eff_le { assert!(t.loop_region == Some((ls, eff_le))); } else { assert!(t.loop_region.is_none(), "an empty or inverted region is ignored"); }
	kani::assume(ls >= eff_le || (position < eff_le && position >= ls));
	if kani::any() { t.increment_position(n); } else { t.decrement_position(); }
	// a region reaching beyond the end of the audio is kept as requested (the part past the end
	// plays as silence: frame_at_index returns None there), so the position invariant is only
	// claimed for regions inside the audio; termination and panic-freedom are claimed for all
	if eff_le <= n {
		assert!(!t.playing || t.position < n);
	}
	kani::cover!(eff_le > n && ls < eff_le, "w:region-beyond-end");
	kani::cover!(ls == eff_le, "w:empty-region");
	kani::cover!(ls > eff_le, "w:inverted-region");
	kani::cover!(ls < eff_le, "w:valid-region");
}
