// @append src/decibels.rs
// C19: decibel -> amplitude conversion over ALL f32 bit patterns (symbolic 32-bit float).
include!(concat!(env!("KV_HARNESS_DIR"), "/lib/libm.rs"));

// @h prop=C19 tier=quick kind=main
// @bounds every f32 bit pattern of the decibel value (incl. NaN, +-inf, denormals, -0.0)
// @funcs Decibels::as_amplitude
// @assume powf contract stub (pow(10,e): >=0, not NaN for non-NaN e, >=1 for e>0, <=1 for e<0, pow(x,+-0)=1)
// @catches `<= SILENCE` -> `< SILENCE`; 0 dB special case dropped together with a changed law; negative or NaN amplitude
#[kani::proof]
#[kani::unwind(2)]
#[kani::stub(f32::powf, kv_powf32)]
fn c19_db_special_cases_all_f32() {
	let d: f32 = kani::any();
	let a = Decibels(d).as_amplitude();
	if d == 0.0 { assert!(a == 1.0, "0 dB (and -0 dB) map to exactly 1"); }
	if d <= -60.0 { assert!(a == 0.0 && a.is_sign_positive(), "-60 dB or less maps to exactly 0"); }
	if !d.is_nan() {
		assert!(!a.is_nan() && a >= 0.0, "amplitude of a non-NaN level is a non-negative number");
		assert!(a.is_finite(), "and finite: a product with a silent sample can never be NaN");
		if d > 0.0 { assert!(a >= 1.0); }
		if d < 0.0 { assert!(a <= 1.0); }
	}
	kani::cover!(d == -60.0, "w:exactly-silence");
	kani::cover!(d < 0.0 && d > -60.0, "w:between");
	kani::cover!(d.is_nan(), "w:nan-does-not-panic");
	kani::cover!(d == 0.0 && d.is_sign_negative(), "w:minus-zero");
}

// @h prop=C19 tier=quick kind=main
// @bounds every pair of non-NaN f32 levels d1 <= d2 (two symbolic 32-bit floats)
// @funcs Decibels::as_amplitude
// @assume powf contract stub incl. monotonicity in the exponent (memoised over the two calls)
// @catches a seam that breaks monotonicity (e.g. silence threshold moved without the special case, sign error in the exponent)
#[kani::proof]
#[kani::unwind(2)]
#[kani::stub(f32::powf, kv_powf32)]
fn c19_db_monotone_pairs() {
	let d1: f32 = kani::any();
	let d2: f32 = kani::any();
	kani::assume(!d1.is_nan() && !d2.is_nan() && d1 <= d2);
	let a1 = Decibels(d1).as_amplitude();
	let a2 = Decibels(d2).as_amplitude();
	assert!(a1 <= a2, "as_amplitude is monotone non-decreasing");
	kani::cover!(d1 <= -60.0 && d2 > -60.0 && d2 < 0.0, "w:across-silence-seam");
	kani::cover!(d1 < 0.0 && d1 > -60.0 && d2 > 0.0, "w:across-unity-seam");
	kani::cover!(d1 > -60.0 && d1 < 0.0 && d2 > d1 && d2 < 0.0, "w:both-in-powf-region");
}

// @h prop=C19 tier=quick kind=main
// @bounds exponent law: the argument handed to powf is exactly 10 and dB/20 for every f32 level outside the special cases
// @funcs Decibels::as_amplitude
// @catches changed base or divisor (e.g. /10 power law instead of /20 amplitude law)
#[kani::proof]
#[kani::unwind(2)]
#[kani::stub(f32::powf, kv_powf32_spy)]
fn c19_db_law_is_10_pow_db_over_20() {
	let d: f32 = kani::any();
	kani::assume(!d.is_nan() && d > -60.0 && d != 0.0);
	let a = Decibels(d).as_amplitude();
	let sat = |x: f32| if x == f32::INFINITY { f32::MAX } else { x }; // overflow saturates at the largest finite amplitude
	if cfg!(kv_native) { assert!(a.to_bits() == sat(10.0f32.powf(d / 20.0)).to_bits(), "native: amplitude == 10^(dB/20)"); return; }
	unsafe {
		assert!(KV_SPY_CALLS == 1 && KV_SPY_B == 10.0 && KV_SPY_E.to_bits() == (d / 20.0).to_bits());
		assert!(a.to_bits() == sat(KV_SPY_R).to_bits(), "the amplitude is what powf returned (saturated if it overflowed)");
	}
	kani::cover!(d > 0.0, "w:gain");
}
static mut KV_SPY_CALLS: u32 = 0;
static mut KV_SPY_B: f32 = 0.0;
static mut KV_SPY_E: f32 = 0.0;
static mut KV_SPY_R: f32 = 0.0;
fn kv_powf32_spy(b: f32, e: f32) -> f32 {
	unsafe { KV_SPY_CALLS += 1; KV_SPY_B = b; KV_SPY_E = e; let r: f32 = kani::any(); KV_SPY_R = r; r }
}

// @h prop=C19 tier=quick kind=main
// @bounds Tweenable::interpolate for Decibels/f32 at the end points, all finite f32 pairs with finite difference
// @funcs <Decibels as Tweenable>::interpolate, <f32 as Tweenable>::interpolate
#[kani::proof]
#[kani::unwind(2)]
fn c19_db_interpolate_endpoints() {
	let a: f32 = kani::any();
	let b: f32 = kani::any();
	kani::assume(a.is_finite() && b.is_finite() && (b - a).is_finite());
	assert!(Decibels::interpolate(Decibels(a), Decibels(b), 0.0).0 == a);
	assert!(Decibels::interpolate(Decibels(a), Decibels(b), 1.0).0 == a + (b - a));
	// SILENCE -> IDENTITY (the fade and the spatial attenuation) is exact at both ends
	assert!(Decibels::interpolate(Decibels::SILENCE, Decibels::IDENTITY, 0.0) == Decibels::SILENCE);
	assert!(Decibels::interpolate(Decibels::SILENCE, Decibels::IDENTITY, 1.0) == Decibels::IDENTITY);
	assert!(Decibels::interpolate(Decibels::IDENTITY, Decibels::SILENCE, 1.0) == Decibels::SILENCE);
	kani::cover!(a > b, "w:descending");
}
