// @append src/sound/streaming/sound/decode_scheduler.rs
// C09 / C10: ONE step of the real DecodeScheduler (struct literal: an 8-slot ring instead of the
// 16384-slot one that split() builds, which no harness got through) with a model Decoder that has a
// packet size and a seek granularity, from ANY consistent scheduler state.
use crate::sound::streaming::command_writers_and_readers;

const KV_N: usize = 5; // frames in the stream; frame i has value i+1

struct KvDecoder { pos: usize, packet: usize, granularity: usize, fail_next: bool }
static mut KV_SEEKS: u32 = 0;
static mut KV_DECODES: u32 = 0;
impl Decoder for KvDecoder {
	type Error = ();
	fn sample_rate(&self) -> u32 { 1 }
	fn num_frames(&self) -> usize { KV_N }
	fn decode(&mut self) -> Result<Vec<Frame>, ()> {
		unsafe { KV_DECODES += 1; }
		// a scheduler that keeps asking a decoder that has nothing left would spin forever (a pure non-termination has no
		// concrete trace, so it is turned into an assertion that replays)
		assert!(unsafe { KV_DECODES } <= (KV_N as u32) + 2, "the scheduler keeps decoding past the end of the audio: its thread would never end");
		if self.fail_next { return Err(()); }
		let mut v = Vec::with_capacity(self.packet);
		let mut k = 0;
		while k < self.packet && self.pos < KV_N { v.push(Frame::from_mono((self.pos + 1) as f32)); self.pos += 1; k += 1; }
		Ok(v)
	}
	fn seek(&mut self, index: usize) -> Result<usize, ()> {
		unsafe { KV_SEEKS += 1; }
		if self.fail_next { return Err(()); }
		// lands at or BEFORE the request, on a multiple of the granularity, as the trait documents
		let i = if index > KV_N { KV_N } else { index };
		self.pos = (i / self.granularity) * self.granularity;
		Ok(self.pos)
	}
}

struct KvParts { sched: DecodeScheduler<()>, consumer: Consumer<TimestampedFrame>, errors: Consumer<()> }

/// a scheduler in an arbitrary CONSISTENT state: the decoder stands where the scheduler thinks it does, and the
/// cached chunk (if any) is the packet that ends there
fn kv_scheduler(packet: usize, granularity: usize, fail_next: bool) -> (KvParts, usize, bool, Option<(usize, usize)>) {
	let dpos: usize = kani::any();
	kani::assume(dpos <= KV_N);
	let has_chunk: bool = kani::any();
	// the last packet decoded: [dpos - len, dpos) with len = min(packet, ...) ; only if the decoder has decoded something
	let chunk = if has_chunk && dpos >= 1 {
		let len = if dpos >= packet { packet } else { dpos };
		let start = dpos - len;
		let mut v = Vec::with_capacity(packet);
		let mut k = 0;
		while k < len { v.push(Frame::from_mono((start + k + 1) as f32)); k += 1; }
		Some(DecodedChunk { start_index: start, frames: v })
	} else { None };
	let position: usize = kani::any();
	let playing: bool = kani::any();
	kani::assume(position <= KV_N && (!playing || position < KV_N));
	let has_loop: bool = kani::any();
	let (ls, le): (usize, usize) = (kani::any(), kani::any());
	kani::assume(ls < le && le <= KV_N && (!has_loop || !playing || position < le));
	let lp = if has_loop { Some((ls, le)) } else { None };
	let (w, _r, sr) = command_writers_and_readers();
	std::mem::forget(w); std::mem::forget(_r);
	let (frame_producer, consumer) = RingBuffer::new(8);
	let (error_producer, errors) = RingBuffer::new(1);
	let sched = DecodeScheduler {
		decoder: Box::new(KvDecoder { pos: dpos, packet, granularity, fail_next }),
		sample_rate: 1, slice: None, num_frames: KV_N,
		transport: Transport { position, loop_region: lp, playing },
		decoder_current_frame_index: dpos,
		decoded_chunk: chunk,
		command_readers: sr,
		frame_producer, error_producer,
		shared: Arc::new(Shared::new()),
	};
	(KvParts { sched, consumer, errors }, position, playing, lp)
}

fn kv_random_access_body(packet: usize, granularity: usize) {
	let (mut p, _pos, _pl, _lp) = kv_scheduler(packet, granularity, false);
	let want: usize = kani::any();
	kani::assume(want <= KV_N + 1);
	let before = p.sched.decoder_current_frame_index;
	let r = p.sched.frame_at_index(want);
	let f = r.ok().unwrap();
	if want < KV_N { assert!(f == Frame::from_mono((want + 1) as f32), "the frame delivered for index i is the decoder's frame i, whatever the packet size and wherever seeks land"); }
	else { assert!(f == Frame::ZERO, "silence past the end of the audio"); }
	unsafe {
		if want >= before || want >= KV_N { assert!(KV_SEEKS == 0, "re-seeks only when going backwards"); }
		assert!(KV_SEEKS <= 1 && KV_DECODES <= (KV_N as u32) + 1);
	}
	kani::cover!(want < KV_N && want + 1 < before, "w:backwards");
	kani::cover!(want < KV_N && want > before, "w:skipping-forwards");
	std::mem::forget(p);
}

// @h prop=C09,C18,C10 tier=quick kind=main timeout=900
// @bounds packet size 2, seek granularity 2 (seeks land on even frames, at or before the request); 5-frame stream; scheduler in ANY consistent state (decoder position, cached packet present or not); any requested index 0..6
// @funcs DecodeScheduler::frame_at_index, DecodedChunk::frame_at_index
// @catches the scheduler trusting the REQUESTED seek index instead of where the decoder actually landed (frames then come out shifted after every backwards seek / loop wrap); cached packet misindexed; wrong frame after skipping forwards; the frame AT the end of the audio requested from the decoder instead of answered with silence (the decode loop then never ends)
#[kani::proof]
#[kani::unwind(8)]
fn c09_scheduler_random_access_packet2_granularity2() { kv_random_access_body(2, 2); }

// @h prop=C09,C18,C10 tier=quick kind=main timeout=900
// @bounds packet size 1, seek granularity 3; otherwise as above
// @funcs DecodeScheduler::frame_at_index
#[kani::proof]
#[kani::unwind(8)]
fn c09_scheduler_random_access_packet1_granularity3() { kv_random_access_body(1, 3); }

// @h prop=C09,C18 tier=thorough kind=main timeout=1750
// @bounds packet size 3, seek granularity 2
// @funcs DecodeScheduler::frame_at_index
#[kani::proof]
#[kani::unwind(8)]
fn c09_scheduler_random_access_packet3_granularity2() { kv_random_access_body(3, 2); }

// @h prop=C09,C10 tier=quick kind=main timeout=900
// @bounds ONE DecodeScheduler::run from any consistent state (any transport position / loop region, any decoder position), packet 2 / granularity 2, ring with free space; sound state Playing or Stopped (symbolic)
// @funcs DecodeScheduler::run, DecodeScheduler::frame_at_index, Transport::increment_position
// @catches frames not produced in transport order (start, loop wrap, end) or stamped with the wrong index; the thread not ending when the sound is Stopped or the end is reached; end flag not raised
#[kani::proof]
#[kani::unwind(8)]
fn c09_scheduler_run_emits_the_transport_frame_and_ends_at_the_end() {
	let (mut p, position, playing, lp) = kv_scheduler(2, 2, false);
	kani::assume(playing);
	let stopped: bool = kani::any();
	if stopped { p.sched.shared.set_state(PlaybackState::Stopped); }
	let r = p.sched.run().ok().unwrap();
	if stopped {
		assert!(matches!(r, NextStep::End) && p.consumer.slots() == 0, "the decoding loop ends once the sound is Stopped, producing nothing more");
	} else {
		let tf = p.consumer.pop().ok().unwrap();
		assert!(tf.index == position && tf.frame == Frame::from_mono((position + 1) as f32), "each step produces the frame at the transport position, stamped with that position");
		// transport advanced as the static sound's does
		let mut q = position + 1;
		if let Some((ls, le)) = lp { if q >= le { q -= le - ls; } }
		assert!(p.sched.transport.position == q);
		let ended = q >= KV_N;
		assert!(matches!(r, NextStep::End) == ended && p.sched.shared.reached_end() == ended, "the loop ends, and says so, exactly when the end of the audio is reached");
	}
	kani::cover!(!stopped && lp.is_some() && position + 1 == lp.unwrap().1, "w:loop-wrap");
	kani::cover!(!stopped && position + 1 == KV_N && lp.is_none(), "w:reaches-end");
	std::mem::forget(p);
}

// @h prop=C10 tier=quick kind=main timeout=900
// @bounds ONE DecodeScheduler::run with a decoder whose next decode/seek FAILS, and one with the ring FULL
// @funcs DecodeScheduler::run
// @catches an error being swallowed (a frame produced anyway), a full ring not making the loop wait, or the loop waiting forever on a full ring after the sound was stopped
#[kani::proof]
#[kani::unwind(10)]
fn c10_scheduler_run_reports_errors_and_waits_when_full() {
	let full: bool = kani::any();
	let (mut p, _position, playing, _lp) = kv_scheduler(2, 2, !full);
	kani::assume(playing);
	// make sure a decode is needed in the failing case
	if !full { p.sched.decoded_chunk = None; }
	if full { let mut k = 0; while k < 8 { p.sched.frame_producer.push(TimestampedFrame { frame: Frame::ZERO, index: 0 }).ok().unwrap(); k += 1; } }
	let stopped: bool = kani::any();
	if full && stopped { p.sched.shared.set_state(PlaybackState::Stopped); }
	let r = p.sched.run();
	if full && stopped { assert!(matches!(r, Ok(NextStep::End)), "once the sound is Stopped the loop ends even if the ring is full (nobody will ever drain it)"); }
	else if full { assert!(matches!(r, Ok(NextStep::Wait)) && p.consumer.slots() == 8, "a full ring makes the loop wait; nothing is overwritten"); }
	else { assert!(r.is_err() && p.consumer.slots() == 0, "a decoder error is reported and no frame is produced for that step"); }
	kani::cover!(full && !stopped, "w:ring-full");
	kani::cover!(full && stopped, "w:stopped-while-ring-full");
	kani::cover!(!full, "w:decoder-fails");
	std::mem::forget(p);
}

// (DecodeScheduler::new itself - the 16384-slot ring - does not get through symbolic execution in 900 s: the base case of the
// induction, 'one silent previous frame is buffered, the transport stands at the start, the decoder where its seek landed', is
// NOT decided; it is read off the 20 lines of DecodeScheduler::new.)
