// @append src/command.rs
// C07: the command channel itself (real triple_buffer 8.1.1 underneath, pointer checks ON).
use crate::{Decibels, Easing, StartTime};
use std::time::Duration;

// @h prop=C07 tier=quick kind=main memsafe=on
// @bounds every history of length <= 5 over {write(v), read()} with symbolic u32 payloads, starting from a fresh channel (so also: writes before the first read)
// @funcs CommandWriter::write, CommandReader::read, command_writer_and_reader, triple_buffer::{Input::write,Output::update,Output::output_buffer_mut}
// @catches a command delivered twice, or late, or lost when written before the first read; the first instead of the last of a burst; stale value after an empty interval
#[kani::proof]
#[kani::unwind(6)]
fn c07_channel_last_write_wins_exactly_once() {
	let (mut w, mut r) = command_writer_and_reader::<u32>();
	let mut last: Option<u32> = None;
	let mut writes_in_burst = 0u8;
	let mut i = 0;
	while i < 5 {
		if kani::any() {
			let v: u32 = kani::any();
			w.write(v);
			last = Some(v);
			writes_in_burst += 1;
		} else {
			let got = r.read();
			assert!(got == last, "a read returns the last value written since the previous read, exactly once, else None");
			kani::cover!(writes_in_burst >= 2 && got.is_some(), "w:burst-then-read");
			kani::cover!(got.is_none() && i >= 2, "w:empty-interval");
			last = None;
			writes_in_burst = 0;
		}
		i += 1;
	}
	std::mem::forget(w); std::mem::forget(r);
}

// @h prop=C07 tier=quick kind=main memsafe=on
// @bounds a 40-byte compound command (ValueChangeCommand<Decibels>: target + start time + duration + easing), two writes then reads: every field of what is read equals the LAST written command (never a mixture)
// @funcs CommandWriter::write, CommandReader::read
// @catches a half-written / mixed command reaching the reader (sequential histories; interleavings inside triple_buffer are outside this family)
#[kani::proof]
#[kani::unwind(4)]
fn c07_channel_compound_command_is_whole() {
	let (mut w, mut r) = command_writer_and_reader::<ValueChangeCommand<Decibels>>();
	let mk = |v: f32, ms: u16, e: bool| ValueChangeCommand { target: Value::Fixed(Decibels(v)), tween: Tween { start_time: if e { StartTime::Immediate } else { StartTime::Delayed(Duration::from_millis(ms as u64)) }, duration: Duration::from_millis(ms as u64), easing: if e { Easing::Linear } else { Easing::InPowi(ms as i32) } } };
	let (v1, v2): (f32, f32) = (kani::any(), kani::any());
	let (m1, m2): (u16, u16) = (kani::any(), kani::any());
	let (e1, e2): (bool, bool) = (kani::any(), kani::any());
	kani::assume(!v1.is_nan() && !v2.is_nan());
	let first_read_between: bool = kani::any();
	w.write(mk(v1, m1, e1));
	if first_read_between { assert!(r.read() == Some(mk(v1, m1, e1))); }
	w.write(mk(v2, m2, e2));
	assert!(r.read() == Some(mk(v2, m2, e2)), "the command read is exactly the last one written, field for field");
	assert!(r.read().is_none(), "and it is delivered once");
	kani::cover!(!first_read_between && (v1 != v2 || m1 != m2), "w:overwritten-before-read");
	std::mem::forget(w); std::mem::forget(r);
}

// @h prop=C07 tier=quick kind=main memsafe=on
// @bounds two independent channels (different command kinds): writes to one never show up on, or disturb, the other
// @funcs command_writer_and_reader, CommandWriter::write, CommandReader::read
#[kani::proof]
#[kani::unwind(4)]
fn c07_channels_do_not_interfere() {
	let (mut wa, mut ra) = command_writer_and_reader::<u32>();
	let (mut wb, mut rb) = command_writer_and_reader::<f64>();
	let a: u32 = kani::any();
	let b: f64 = kani::any();
	kani::assume(!b.is_nan());
	let (sa, sb): (bool, bool) = (kani::any(), kani::any());
	if sa { wa.write(a); }
	if sb { wb.write(b); }
	assert!(ra.read() == if sa { Some(a) } else { None });
	assert!(rb.read() == if sb { Some(b) } else { None });
	kani::cover!(sa && !sb, "w:only-one-kind-written");
	std::mem::forget(wa); std::mem::forget(ra); std::mem::forget(wb); std::mem::forget(rb);
}
