// @append src/modulator/lfo.rs
// C17: LFO waveforms. (Lfo::update wraps its phase with a float `%`, which Kani 0.68 evaluates to 0.0:
// the phase accumulation is NOT decided by this engine - see DESIGN.md.)
include!(concat!(env!("KV_HARNESS_DIR"), "/lib/libm.rs"));

// @h prop=C17 tier=quick kind=main
// @bounds every phase in [0,1) (all f64 bit patterns), every pulse width; Triangle, Saw, Pulse and Sine (sin contract: |sin| <= 1)
// @funcs Waveform::value
// @assume sin contract stub
// @catches a waveform leaving [-1, 1]; wrong breakpoints (triangle peak at phase 1/4, trough at 3/4; saw zero at phase 0, jump at 1/2; pulse high below its width)
#[kani::proof]
#[kani::unwind(2)]
#[kani::stub(f64::sin, kv_sin64)]
fn c17_waveforms_stay_in_range_and_hit_their_breakpoints() {
	let p: f64 = kani::any();
	kani::assume(p >= 0.0 && p < 1.0);
	let width: f64 = kani::any();
	let sel: u8 = kani::any();
	kani::assume(sel < 4);
	let w = match sel { 0 => Waveform::Sine, 1 => Waveform::Triangle, 2 => Waveform::Saw, _ => Waveform::Pulse { width } };
	let v = w.value(p);
	assert!(v >= -1.0 && v <= 1.0, "every waveform stays within [-1, 1]: the LFO stays within offset +/- |amplitude|");
	assert!(Waveform::Triangle.value(0.0) == 0.0 && Waveform::Triangle.value(0.25) == 1.0 && Waveform::Triangle.value(0.5) == 0.0 && Waveform::Triangle.value(0.75) == -1.0, "triangle breakpoints");
	assert!(Waveform::Saw.value(0.0) == 0.0 && Waveform::Saw.value(0.25) == 0.5 && Waveform::Saw.value(0.5) == -1.0 && Waveform::Saw.value(0.75) == -0.5, "saw breakpoints");
	if sel == 3 { assert!(v == if p < width { 1.0 } else { -1.0 }); }
	kani::cover!(sel == 1 && p > 0.25 && p < 0.75, "w:triangle-falling");
	kani::cover!(sel == 3 && p >= width, "w:pulse-low");
}

// @h prop=C07,C17 tier=quick kind=main timeout=900
// @bounds real Lfo with its command channel: set_waveform and/or set_phase written (symbolic which, phases 0, pi/2, pi, 2 pi) before a callback; on_start_processing twice
// @funcs Lfo::{new,on_start_processing}, CommandReader::read
// @catches an LFO command lost or re-applied on every callback (the phase would be reset each callback)
#[kani::proof]
#[kani::unwind(3)]
fn c07_lfo_commands_applied_exactly_once() {
	let (mut w, r) = command_writers_and_readers();
	let mut lfo = Lfo::new(&LfoBuilder::new(), r, Arc::new(LfoShared::new()));
	let (sw, sp): (bool, bool) = (kani::any(), kani::any());
	let k: u8 = kani::any();
	kani::assume(k < 4);
	let phase_arg = match k { 0 => 0.0, 1 => TAU / 4.0, 2 => TAU / 2.0, _ => TAU };
	if sw { w.set_waveform.write(Waveform::Saw); }
	if sp { w.set_phase.write(phase_arg); }
	lfo.phase = 0.125;
	lfo.on_start_processing();
	assert!(lfo.waveform == if sw { Waveform::Saw } else { Waveform::Sine });
	if sp { assert!(lfo.phase == phase_arg / TAU, "the phase is given in radians: phase/2pi of a cycle"); } else { assert!(lfo.phase == 0.125); }
	lfo.phase = 0.375;
	lfo.waveform = Waveform::Triangle;
	lfo.on_start_processing();
	assert!(lfo.phase == 0.375 && lfo.waveform == Waveform::Triangle, "a second drain re-applies nothing");
	kani::cover!(sw && sp, "w:two-kinds-together");
	std::mem::forget(lfo); std::mem::forget(w);
}
