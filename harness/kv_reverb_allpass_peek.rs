// @append src/effect/reverb/all_pass.rs
impl AllPassFilter { pub(crate) fn kv_len(&self) -> usize { self.buffer.len() } }
