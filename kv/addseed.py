#!/usr/bin/env python3
"""usage: addseed.py <ID> <k> <worktree> <summary...>   (sub-agent output expected in /tmp/seed/out/<ID>-m<k>/)
Validates an independently produced change with kv/validate_seed.sh in the given scratch worktree, stores it under
seeded/<ID>-m<k>/ with a meta.json, and runs the quick check of its property against it (kv/seedmatrix.py)."""
import json, os, shutil, subprocess, sys
V = os.path.dirname(os.path.dirname(os.path.abspath(__file__)))
pid, k, wt = sys.argv[1], sys.argv[2], sys.argv[3]
summary = " ".join(sys.argv[4:])
name = "%s-m%s" % (pid, k)
src = "/tmp/seed/out/" + name
env = dict(os.environ, CARGO_TARGET_DIR=wt + "/target")
r = subprocess.run([V + "/kv/validate_seed.sh", src, wt, name], capture_output=True, text=True, env=env)
verdict = (r.stdout.strip().splitlines() or ["?"])[-1]
print(verdict)
if "suite_with_patch=pass demo_with_patch=fail demo_without_patch=pass" not in verdict:
    sys.exit("NOT confirmed: not stored")
dst = V + "/seeded/" + name
os.makedirs(dst, exist_ok=True)
for f in ("patch.diff", "demo.rs", "notes.md", "validation.txt"):
    if os.path.exists(src + "/" + f):
        shutil.copy(src + "/" + f, dst + "/" + f)
props = {json.loads(l)["id"]: json.loads(l) for l in open(V + "/properties.jsonl")}
head = subprocess.run(["git", "-C", "/repo", "rev-parse", "--short", "HEAD"], capture_output=True, text=True).stdout.strip()
files = [l[6:].strip() for l in open(dst + "/patch.diff") if l.startswith("+++ b/")]
meta = {"seed": name, "breaks_property": pid, "property_title": props[pid]["title"], "summary": "%s / m%s — %s" % (pid, k, summary),
        "files_changed": files, "needs_to_manifest": "see notes.md",
        "produced_by": "independent sub-agent given only the property text, a focus area and a scratch worktree of /repo at HEAD %s" % head,
        "validated_by_me": {"command": "kv/validate_seed.sh (scratch worktree): cargo test -p kira --offline with the patch; demo test with the patch; demo test without the patch", "result": verdict},
        "demo_placement": "crates/kira/tests/demo_%s_m%s.rs ; run: cargo test -p kira --offline --test demo_%s_m%s" % (pid, k, pid, k),
        "detected_by": None}
json.dump(meta, open(dst + "/meta.json", "w"), indent=1)
subprocess.run(["python3", V + "/kv/seedmatrix.py", name], env=dict(os.environ, KV_JOBS=os.environ.get("KV_JOBS", "8")))
