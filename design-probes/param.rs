use crate::clock::Clock;
use crate::listener::Listener;
use crate::modulator::Modulator;
use atomic_arena::Arena;

#[kani::proof]
#[kani::unwind(3)]
fn param_f64_step_linear_immediate() {
	let clocks: Arena<Clock> = Arena::new(0);
	let modulators: Arena<Box<dyn Modulator>> = Arena::new(0);
	let listeners: Arena<Listener> = Arena::new(0);
	let info = Info::new(&clocks, &modulators, &listeners, None);
	let start: f64 = kani::any();
	let target: f64 = kani::any();
	let raw: f64 = kani::any();
	kani::assume(start.is_finite() && target.is_finite() && raw.is_finite());
	kani::assume(start.abs() <= 1e6 && target.abs() <= 1e6);
	let time: f64 = kani::any();
	let duration = Duration::from_millis(250);
	kani::assume(time >= 0.0 && (time < duration.as_secs_f64() || time == 0.0));
	let dt: f64 = kani::any();
	kani::assume(dt > 0.0 && dt <= 10.0);
	let mut p = Parameter::<f64> {
		state: State::Tweening { start, target: Value::Fixed(target), time, tween: Tween { start_time: StartTime::Immediate, duration, easing: crate::Easing::Linear } },
		raw_value: raw,
		previous_raw_value: raw,
		stagnant: false,
	};
	let finished = p.update(dt, &info);
	assert!(p.previous_value() == raw);
	if finished {
		assert!(p.value() == target);
		assert!(matches!(p.state, State::Idle { .. }));
		assert!(p.stagnant);
	} else {
		let lo = if start < target { start } else { target };
		let hi = if start < target { target } else { start };
		let slack = (hi - lo) * 1e-9 + 1e-9;
		assert!(p.value() >= lo - slack && p.value() <= hi + slack);
	}
	kani::cover!(finished);
	kani::cover!(!finished);
}
