// @append src/track/sub.rs
// @requires kv_listener_make.rs
// C15: spatial tracks: distance attenuation and per-ear gains on the private SpatialData::spatialize.
include!(concat!(env!("KV_HARNESS_DIR"), "/lib/libm.rs"));
use crate::Value as KvValue;

// glam's Quat::from_rotation_y(+-pi/8) calls f32::sin_cos(+-pi/16): Kani's sin/cos are unconstrained, so the
// two values the real libm returns there are substituted (checked natively by kv/validate_stubs)
fn kv_sin_cos_pi16(x: f32) -> (f32, f32) { if x >= 0.0 { (0.19509032, 0.98078528) } else { (-0.19509032, 0.98078528) } }

fn kv_spatial(position: Vec3, min: f32, max: f32, attenuation: Option<Easing>, strength: f32) -> SpatialData {
	let lid = { let a: atomic_arena::Arena<u8> = atomic_arena::Arena::new(1); let k = a.controller().try_reserve().unwrap(); std::mem::forget(a); ListenerId(k) };
	SpatialData {
		listener_id: lid,
		position: Parameter::new(KvValue::Fixed(position), position),
		distances: SpatialTrackDistances { min_distance: min, max_distance: max },
		attenuation_function: attenuation,
		spatialization_strength: Parameter::new(KvValue::Fixed(strength), strength),
	}
}

// @h prop=C15 tier=quick kind=main
// @bounds distances and range on the grid k/4, k <= 255 (min < max); two distances
// @funcs SpatialTrackDistances::relative_distance
// @catches min/max swapped; relative distance leaving [0,1]; end points not exact
#[kani::proof]
#[kani::unwind(2)]
fn c15_relative_distance_clamps_and_is_monotone() {
	// (the upper end point needs q == 1 from n == d through an f32 divider: decided on the grid k/4, k <= 255)
	let g = || { let k: u8 = kani::any(); k as f32 / 4.0 };
	let (min, max, d1, d2): (f32, f32, f32, f32) = (g(), g(), g(), g());
	kani::assume(min >= 0.0 && min < max && max <= 1.0e6 && d1 >= 0.0 && d1 <= d2 && d2.is_finite());
	let s = SpatialTrackDistances { min_distance: min, max_distance: max };
	let (r1, r2) = (s.relative_distance(d1), s.relative_distance(d2));
	assert!(r1 >= 0.0 && r1 <= 1.0 && r2 >= 0.0 && r2 <= 1.0);
	if d1 <= min { assert!(r1 == 0.0, "within the minimum distance: relative distance 0 (unity gain)"); }
	if d2 >= max { assert!(r2 == 1.0, "at or beyond the maximum distance: relative distance 1 (silence)"); }
	kani::cover!(d1 > min && d2 < max && d1 < d2, "w:inside");
}

// @h prop=C15 tier=thorough kind=main timeout=1700
// @bounds range and two distances on the grid k/4, |k| <= 128: relative distance non-decreasing in the distance
// @funcs SpatialTrackDistances::relative_distance
#[kani::proof]
#[kani::unwind(2)]
fn c15_relative_distance_monotone_on_grid() {
	let g = || { let k: u8 = kani::any(); k as f32 / 4.0 };
	let (min, max, d1, d2) = (g(), g(), g(), g());
	kani::assume(min < max && d1 <= d2);
	let s = SpatialTrackDistances { min_distance: min, max_distance: max };
	assert!(s.relative_distance(d1) <= s.relative_distance(d2), "non-decreasing in the distance");
	kani::cover!(d1 > min && d2 < max && d1 < d2, "w:inside");
}

// @h prop=C15 tier=quick kind=main timeout=600
// @bounds emitter and listener on the x axis at symbolic small-integer coordinates, identity orientation, strength 0 (no panning), Linear attenuation, range (1, 4): distance <= 1 -> the frame passes bit-exactly; distance >= 4 -> exact silence
// @funcs SpatialData::spatialize, SpatialTrackDistances::relative_distance, Easing::apply, <Decibels as Tweenable>::interpolate, Decibels::as_amplitude, glam::Vec3::{sub,length}
// @assume powf contract stub (not reached at the two ends: 0 dB and -60 dB are special-cased)
// @catches attenuation not unity inside the minimum distance or not zero beyond the maximum; strength 0 still panning; attenuation depending on direction
#[kani::proof]
#[kani::unwind(3)]
#[kani::stub(f32::powf, kv_powf32)]
fn c15_attenuation_end_points_and_unpanned_at_strength_0() {
	let sm = || { let v: i8 = kani::any(); kani::assume(v >= -8 && v <= 8); v as f32 };
	let (ex, lx) = (sm(), sm());
	let (l, r) = (sm(), sm());
	let sd = kv_spatial(Vec3::new(ex, 0.0, 0.0), 1.0, 4.0, Some(Easing::Linear), 0.0);
	let out = sd.spatialize(Frame::new(l, r), Vec3::new(lx, 0.0, 0.0), Quat::IDENTITY, 0.5);
	let dist = (ex - lx).abs();
	if dist <= 1.0 { assert!(out.left == l && out.right == r, "within the minimum distance: unity, unpanned at strength 0"); }
	if dist >= 4.0 { assert!(out.left == 0.0 && out.right == 0.0, "at or beyond the maximum distance: silence"); }
	assert!(out.left.is_finite() && out.right.is_finite(), "finite for coincident emitter and listener too");
	kani::cover!(dist == 0.0, "w:coincident");
	kani::cover!(dist == 4.0, "w:exactly-max");
	std::mem::forget(sd);
}

// @h prop=C15 tier=quick kind=main timeout=600
// @bounds no attenuation, strength 1, identity orientation, listener at the origin, emitter on the x axis at +-k (k = 1..8) or ON an ear point (+-0.1) or at the listener: each ear gain is finite and in [0, 1]; the ear on the emitter's side gets at least the other's gain
// @funcs SpatialData::spatialize, listener_ear_positions, listener_ear_directions, glam::{Quat::mul_vec3, Vec3::normalize_or_zero, Vec3::dot}
// @assume f32::sin_cos replaced by its native values at +-pi/16 (the ear angle)
// @catches NaN when the emitter coincides with an ear or the listener (normalize of a zero vector); ear gains leaving [1 - strength, 1]; left/right swapped
#[kani::proof]
#[kani::unwind(3)]
#[kani::stub(f32::sin_cos, kv_sin_cos_pi16)]
fn c15_ear_gains_are_finite_bounded_and_favour_the_near_ear() {
	let k: i8 = kani::any();
	kani::assume(k >= -8 && k <= 8);
	let on_ear: bool = kani::any();
	let ex = if on_ear { if k >= 0 { 0.1 } else { -0.1 } } else { k as f32 };
	let sd = kv_spatial(Vec3::new(ex, 0.0, 0.0), 1.0, 100.0, None, 1.0);
	let out = sd.spatialize(Frame::new(1.0, 1.0), Vec3::ZERO, Quat::IDENTITY, 0.5);
	assert!(out.left.is_finite() && out.right.is_finite(), "finite for every finite position, coincident points included");
	assert!(out.left >= -1e-6 && out.left <= 1.0 + 1e-6 && out.right >= -1e-6 && out.right <= 1.0 + 1e-6, "each ear gain lies in [1 - strength, 1]");
	if ex > 0.5 { assert!(out.right >= out.left, "an emitter on the right favours the right ear"); }
	if ex < -0.5 { assert!(out.left >= out.right, "an emitter on the left favours the left ear"); }
	kani::cover!(on_ear && k >= 0, "w:on-right-ear");
	kani::cover!(!on_ear && k == 0, "w:at-listener");
	std::mem::forget(sd);
}

// ---- missing listener ---------------------------------------------------------------------------
use crate::sound::Sound as KvSoundTrait;
struct KvDc;
impl KvSoundTrait for KvDc {
	fn process(&mut self, out: &mut [Frame], _dt: f64, _info: &Info) { out.fill(Frame::new(1.0, 1.0)); }
	fn finished(&self) -> bool { false }
}

// @h prop=C15,C08,C11,C01 tier=quick kind=main timeout=600
// @bounds real Track::process of a spatial track (strength 0, no attenuation) with a DC probe sound over a real Listeners storage of capacity 1: the listener id never resolved, resolves, or is STALE (its slot reused by a newer listener) (symbolic); optionally nested in another spatial track whose listener does not exist; one 1-frame chunk
// @funcs Track::process (spatialization branch), Info::listener_info, Arena::get
// @catches a spatial track whose listener does not exist (never did, dropped, or slot reused) still producing sound; a nested spatial track spatialised against its parent's listener instead of its own
#[kani::proof]
#[kani::unwind(3)]
fn c15_spatial_track_without_listener_is_silent() {
	let (clocks, ca) = Clocks::new(0);
	let (modulators, cb) = Modulators::new(0);
	let (mut listeners, cc) = Listeners::new(1);
	std::mem::forget(ca); std::mem::forget(cb); std::mem::forget(cc);
	let (mut st, stc) = ResourceStorage::<SendTrack>::new(0);
	let mode: u8 = kani::any();
	kani::assume(mode < 3);
	let ctrl = listeners.0.resources.controller();
	let key = ctrl.try_reserve().unwrap();
	let mk = || crate::listener::Listener::kv_at_origin();
	match mode {
		0 => {}
		1 => { let r = listeners.0.resources.insert_with_key(key, mk()); std::mem::forget(r); }
		_ => {
			let r = listeners.0.resources.insert_with_key(key, mk()); std::mem::forget(r);
			let old = listeners.0.resources.remove(key); std::mem::forget(old);
			let key2 = ctrl.try_reserve().unwrap();
			let r = listeners.0.resources.insert_with_key(key2, mk()); std::mem::forget(r);
		}
	}
	let mut sd = kv_spatial(Vec3::new(0.0, 0.0, 0.0), 1.0, 100.0, None, 0.0);
	sd.listener_id = ListenerId(key);
	let (mut sounds, sc) = ResourceStorage::<Box<dyn KvSoundTrait>>::new(1);
	{ let k = sounds.resources.controller().try_reserve().unwrap(); let r = sounds.resources.insert_with_key(k, Box::new(KvDc) as Box<dyn KvSoundTrait>); std::mem::forget(r); }
	let (sub_tracks, tc) = ResourceStorage::new(0);
	let (cw, command_readers) = command_writers_and_readers();
	let mut track = Track {
		shared: Arc::new(TrackShared::new()), command_readers,
		volume: Parameter::new(KvValue::Fixed(Decibels::IDENTITY), Decibels::IDENTITY),
		sounds, sub_tracks, effects: vec![], sends: vec![], persist_until_sounds_finish: false,
		spatial_data: Some(sd), playback_state_manager: PlaybackStateManager::new(None),
		temp_buffer: vec![Frame::ZERO; 1], internal_buffer_size: 1,
	};
	let mut out = [Frame::ZERO; 1];
	// nested inside another spatial track whose listener does NOT exist: the track's own spatial data must win
	let nested: bool = kani::any();
	let parent = if nested {
		let ghost = { let a: atomic_arena::Arena<u8> = atomic_arena::Arena::new(2); let c = a.controller(); let _k0 = c.try_reserve().unwrap(); let k1 = c.try_reserve().unwrap(); std::mem::forget(a); ListenerId(k1) };
		Some(SpatialTrackInfo { position: Vec3::new(50.0, 0.0, 0.0), listener_id: ghost })
	} else { None };
	track.process(&mut out, 0.25, &clocks, &modulators, &listeners, parent, &mut st);
	if mode == 1 { assert!(out[0] == Frame::new(1.0, 1.0), "with its own listener present the track is heard (strength 0: unpanned), also when nested in another spatial track"); }
	else { assert!(out[0] == Frame::ZERO, "if the listener does not exist (never did, was dropped, or its slot was reused) the track is silent"); }
	kani::cover!(mode == 2, "w:stale-listener-id");
	kani::cover!(mode == 1 && nested, "w:nested-in-a-spatial-track-with-another-listener");
	std::mem::forget(track); std::mem::forget(st); std::mem::forget(stc); std::mem::forget(sc); std::mem::forget(tc); std::mem::forget(cw);
	std::mem::forget(clocks); std::mem::forget(modulators); std::mem::forget(listeners);
}

// @h prop=C15 tier=quick kind=main timeout=600
// @bounds listener at ANY small-integer position (|coordinate| <= 8) facing forwards (identity) or turned around (180 degrees about the vertical axis), symbolic
// @funcs listener_ear_positions, glam Quat * Vec3 (scalar-math)
// @catches the listener's orientation being applied to its POSITION as well as to the ear offset (the whole head would swing around the world origin: wrong side favoured for a turned listener away from the origin, no invariance under rigid motion); ears on the wrong side; ear distance changed
#[kani::proof]
#[kani::unwind(2)]
fn c15_ears_sit_beside_the_listener_wherever_it_is_and_however_it_is_turned() {
	let sm = || { let v: i8 = kani::any(); kani::assume(v >= -8 && v <= 8); v as f32 };
	let (px, py, pz) = (sm(), sm(), sm());
	let turned: bool = kani::any();
	let q = if turned { Quat::from_xyzw(0.0, 1.0, 0.0, 0.0) } else { Quat::IDENTITY };
	let (l, r) = listener_ear_positions(Vec3::new(px, py, pz), q);
	let side = if turned { 0.1f32 } else { -0.1f32 }; // the left ear is at -x for a listener facing forwards, at +x once turned around
	let close = |a: f32, b: f32| (a - b).abs() <= 1.0e-5;
	assert!(close(l.x, px + side) && close(l.y, py) && close(l.z, pz), "left ear: 0.1 to the listener's left of its position");
	assert!(close(r.x, px - side) && close(r.y, py) && close(r.z, pz), "right ear: 0.1 to the listener's right of its position");
	kani::cover!(turned && px == 8.0, "witness");
}
