#!/bin/bash
# usage: validate_seed.sh <seed-src-dir with patch.diff demo.rs notes.md> <worktree> <name e.g. C06-m2>
# Confirms in a scratch worktree (never /repo): (1) existing suite passes WITH the patch, (2) demo FAILS with the
# patch, (3) demo PASSES without it. Prints a one-line verdict and writes <seed-src-dir>/validation.txt
set -u
SRC=$1; WT=$2; NAME=$3
cd "$WT" || exit 2
git checkout -q -- . && git clean -fdq -- crates
DEMO=crates/kira/tests/demo_${NAME//-/_}.rs
out="$SRC/validation.txt"; : > "$out"
git apply "$SRC/patch.diff" || { echo "$NAME: patch does not apply" | tee -a "$out"; exit 1; }
# (1) suite with patch (without the demo present)
if cargo test -p kira --offline >"$SRC/suite_with.log" 2>&1; then s1=pass; else s1=FAIL; fi
cp "$SRC/demo.rs" "$DEMO"
t=$(basename "$DEMO" .rs)
if timeout 600 cargo test -p kira --offline --test "$t" >"$SRC/demo_with.log" 2>&1; then s2=pass; else s2=fail; fi
git apply -R "$SRC/patch.diff"
if timeout 600 cargo test -p kira --offline --test "$t" >"$SRC/demo_without.log" 2>&1; then s3=pass; else s3=FAIL; fi
rm -f "$DEMO"; git checkout -q -- . ; git clean -fdq -- crates
echo "$NAME: suite_with_patch=$s1 demo_with_patch=$s2 demo_without_patch=$s3" | tee -a "$out"
[ "$s1" = pass ] && [ "$s2" = fail ] && [ "$s3" = pass ]
