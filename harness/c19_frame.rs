// @append src/frame.rs
// C19 (pan law) and C04 (Hermite interpolation end points).

include!(concat!(env!("KV_HARNESS_DIR"), "/lib/libm.rs"));

// sqrt spy: records the two arguments Frame::panned takes the root of
static mut KV_SQ_ARGS: [f32; 2] = [0.0; 2];
static mut KV_SQ_N: usize = 0;
fn kv_sqrt32_spy(x: f32) -> f32 {
	unsafe { if KV_SQ_N < 2 { KV_SQ_ARGS[KV_SQ_N] = x; } KV_SQ_N += 1; }
	kv_sqrt32(x)
}

// @h prop=C19,C01 tier=quick kind=main
// @bounds every f32 bit pattern of the panning value (incl. NaN, +-inf, -0.0); every finite frame
// @funcs Frame::panned
// @assume f32::sqrt replaced by a recording contract stub (sqrt(0)=0, sqrt(1)=1, monotone, in [x,1) for x<1)
// @catches centre shortcut removed/altered; clamp (either bound) dropped; roots taken of anything but (1-m, m) with m=(clamp(p,-1,1)+1)/2; NaN from an out-of-range panning
#[kani::proof]
#[kani::unwind(2)]
#[kani::stub(f32::sqrt, kv_sqrt32_spy)]
fn c19_panned_all_f32() {
	let l: f32 = kani::any();
	let r: f32 = kani::any();
	let p: f32 = kani::any();
	kani::assume(l.is_finite() && r.is_finite());
	let f = Frame::new(l, r);
	let o = f.panned(Panning(p));
	if cfg!(kv_native) {
		// native replay oracle (real sqrt)
		if p == 0.0 { assert!(o.left.to_bits() == l.to_bits() && o.right.to_bits() == r.to_bits()); }
		else if !p.is_nan() {
			let m = (p.clamp(-1.0, 1.0) + 1.0) * 0.5;
			let want = Frame::new(l * (1.0 - m).sqrt(), r * m.sqrt()) * std::f32::consts::SQRT_2;
			assert!(o.left.to_bits() == want.left.to_bits() && o.right.to_bits() == want.right.to_bits(), "native: equal-power pan law");
			assert!(!o.left.is_nan() && !o.right.is_nan());
		}
		return;
	}
	if p == 0.0 {
		assert!(o.left.to_bits() == l.to_bits() && o.right.to_bits() == r.to_bits(), "centre keeps the frame bit-exactly");
		assert!(unsafe { KV_SQ_N } == 0);
	} else if !p.is_nan() {
		let m = (p.clamp(-1.0, 1.0) + 1.0) * 0.5;
		assert!(m >= 0.0 && m <= 1.0);
		unsafe {
			assert!(KV_SQ_N == 2, "two roots: left and right gain");
			assert!(KV_SQ_ARGS[0].to_bits() == (1.0 - m).to_bits() && KV_SQ_ARGS[1].to_bits() == m.to_bits(),
				"equal-power law: gains are sqrt(1-m) and sqrt(m), m = (clamp(p,-1,1)+1)/2");
		}
		assert!(!o.left.is_nan() && !o.right.is_nan(), "finite frame, non-NaN panning: no NaN");
	}
	if p <= -1.0 { assert!(o.right == 0.0, "hard left (and anything beyond, clamped): nothing on the right"); }
	if p >= 1.0 { assert!(o.left == 0.0, "hard right (and anything beyond, clamped): nothing on the left"); }
	kani::cover!(p < -1.0, "w:below-range");
	kani::cover!(p > 0.0 && p < 1.0, "w:partial-right");
	kani::cover!(p.is_nan(), "w:nan-no-panic");
}

// @h prop=C19 tier=quick kind=main
// @bounds unit frame (1,1), every non-NaN f32 panning, real (bit-precise) f32 sqrt of CBMC
// @funcs Frame::panned
// @catches missing sqrt(2) normalisation at the ends; gains outside [0, sqrt 2]; hard-left/right levels
#[kani::proof]
#[kani::unwind(2)]
fn c19_panned_unit_gains() {
	let p: f32 = kani::any();
	kani::assume(!p.is_nan());
	let o = Frame::new(1.0, 1.0).panned(Panning(p));
	assert!(o.left >= 0.0 && o.right >= 0.0 && o.left <= 1.4142137 && o.right <= 1.4142137);
	if p <= -1.0 { assert!(o.left == std::f32::consts::SQRT_2 && o.right == 0.0, "hard left: (sqrt 2, 0)"); }
	if p >= 1.0 { assert!(o.right == std::f32::consts::SQRT_2 && o.left == 0.0, "hard right: (0, sqrt 2)"); }
	if p == 0.0 { assert!(o.left == 1.0 && o.right == 1.0, "centre keeps the level"); }
	kani::cover!(p > 0.25 && p < 0.75, "w:mid-right");
}

// @h prop=C19 tier=quick kind=main
// @bounds every pair of non-NaN, non-centre pannings p1 <= p2: the argument of the right-gain root never decreases, that of the left-gain root never increases
// @funcs Frame::panned
// @assume f32::sqrt replaced by the recording contract stub; monotonicity of the gains then follows from sqrt and x*sqrt(2) being monotone (not re-proved by the solver: multiplier monotonicity does not finish)
// @catches left/right swapped; a pan law that is not monotone in the panning value
#[kani::proof]
#[kani::unwind(2)]
#[kani::stub(f32::sqrt, kv_sqrt32_spy)]
fn c19_panned_monotone() {
	let p1: f32 = kani::any();
	let p2: f32 = kani::any();
	kani::assume(!p1.is_nan() && !p2.is_nan() && p1 <= p2);
	kani::assume(p1 != 0.0 && p2 != 0.0);
	if cfg!(kv_native) {
		let a = Frame::new(1.0, 1.0).panned(Panning(p1));
		let b = Frame::new(1.0, 1.0).panned(Panning(p2));
		assert!(a.right <= b.right && a.left >= b.left, "native: gains monotone in the panning value");
		return;
	}
	let _a = Frame::new(1.0, 1.0).panned(Panning(p1));
	let (l1, r1) = unsafe { (KV_SQ_ARGS[0], KV_SQ_ARGS[1]) };
	unsafe { KV_SQ_N = 0; }
	let _b = Frame::new(1.0, 1.0).panned(Panning(p2));
	let (l2, r2) = unsafe { (KV_SQ_ARGS[0], KV_SQ_ARGS[1]) };
	assert!(r1 <= r2 && l1 >= l2, "panning right never lowers the right gain or raises the left gain");
	assert!(l1 >= 0.0 && l1 <= 1.0 && r1 >= 0.0 && r1 <= 1.0);
	kani::cover!(p1 < 0.0 && p2 > 0.0, "w:across-centre");
}

// @h prop=C04 tier=quick kind=main
// @bounds small-integer frames |v| <= 8 (all arithmetic exact in f32); fraction 0 and 1
// @funcs interpolate_frame
// @catches coefficient changed in the Hermite x-form (c1/c2/c3), argument order swapped
#[kani::proof]
#[kani::unwind(2)]
fn c04_interpolate_frame_endpoints() {
	let v: [i8; 4] = kani::any();
	kani::assume(v[0] >= -8 && v[0] <= 8 && v[1] >= -8 && v[1] <= 8 && v[2] >= -8 && v[2] <= 8 && v[3] >= -8 && v[3] <= 8);
	let f = |i: usize| Frame::new(v[i] as f32, -(v[i] as f32));
	let at0 = interpolate_frame(f(0), f(1), f(2), f(3), 0.0);
	let at1 = interpolate_frame(f(0), f(1), f(2), f(3), 1.0);
	assert!(at0 == f(1), "fraction 0 returns the current frame");
	assert!(at1 == f(2), "fraction 1 returns the next frame");
	kani::cover!(v[0] != v[1] && v[1] != v[2] && v[2] != v[3], "w:distinct");
}

// @h prop=C04,C01 tier=quick kind=main
// @bounds finite frames |v| <= 2^20, fraction in [0,1]
// @funcs interpolate_frame
#[kani::proof]
#[kani::unwind(2)]
fn c04_interpolate_frame_finite() {
	let v: [f32; 4] = kani::any();
	let x: f32 = kani::any();
	kani::assume(x >= 0.0 && x <= 1.0);
	kani::assume(v[0].abs() <= 1048576.0 && v[1].abs() <= 1048576.0 && v[2].abs() <= 1048576.0 && v[3].abs() <= 1048576.0);
	let o = interpolate_frame(Frame::from_mono(v[0]), Frame::from_mono(v[1]), Frame::from_mono(v[2]), Frame::from_mono(v[3]), x);
	assert!(o.left.is_finite() && o.right.is_finite());
	kani::cover!(x > 0.0 && x < 1.0, "w:inside");
}

// @h prop=C04 tier=thorough kind=main timeout=1700
// @bounds small-integer frames |v| <= 8; fraction 1/2: the 4-point Hermite midpoint (-p + 9c + 9n1 - n2)/16
// @funcs interpolate_frame
#[kani::proof]
#[kani::unwind(2)]
fn c04_interpolate_frame_midpoint() {
	let v: [i8; 4] = kani::any();
	kani::assume(v[0] >= -8 && v[0] <= 8 && v[1] >= -8 && v[1] <= 8 && v[2] >= -8 && v[2] <= 8 && v[3] >= -8 && v[3] <= 8);
	let f = |i: usize| Frame::from_mono(v[i] as f32);
	let mid = interpolate_frame(f(0), f(1), f(2), f(3), 0.5);
	let want = (-(v[0] as i32) + 9 * v[1] as i32 + 9 * v[2] as i32 - v[3] as i32) as f32 / 16.0;
	assert!(mid.left == want, "fraction 1/2 is the 4-point Hermite midpoint");
	kani::cover!(v[0] != v[1] && v[1] != v[2], "w:distinct");
}
