fn any_time() -> ClockTime {
	let ticks: u64 = kani::any();
	let fraction: f64 = kani::any();
	kani::assume(ticks <= (1u64 << 53));
	kani::assume(fraction >= 0.0 && fraction < 1.0);
	ClockTime { clock: crate::clock::ClockId(fake_key()), ticks, fraction }
}
fn fake_key() -> atomic_arena::Key {
	// Key has private fields; get one from a real arena
	let arena: atomic_arena::Arena<u8> = atomic_arena::Arena::new(1);
	arena.controller().try_reserve().unwrap()
}

#[kani::proof]
#[kani::unwind(3)]
fn time_add_fraction_in_range() {
	let t = any_time();
	let x: f64 = kani::any();
	kani::assume(x.is_finite() && x >= 0.0 && x <= 1e9);
	let r = t + x;
	assert!(r.fraction >= 0.0 && r.fraction < 1.0);
}

#[kani::proof]
#[kani::unwind(3)]
fn time_sub_fraction_in_range() {
	let t = any_time();
	let x: f64 = kani::any();
	kani::assume(x.is_finite() && x >= 0.0 && x <= 1e9);
	let r = t - x;
	assert!(r.fraction >= 0.0 && r.fraction < 1.0);
}

#[kani::proof]
#[kani::unwind(3)]
fn time_add_sub_roundtrip() {
	let t = any_time();
	let x: f64 = kani::any();
	kani::assume(x.is_finite() && x >= 0.0 && x <= 1e6);
	kani::assume(t.ticks <= 1_000_000);
	let r = (t + x) - x;
	let orig = t.ticks as f64 + t.fraction;
	let back = r.ticks as f64 + r.fraction;
	assert!((orig - back).abs() <= 1e-3);
}

#[test]
fn kani_concrete_playback_time_add_sub_roundtrip_155652442371896006() {
    let concrete_vals: Vec<Vec<u8>> = vec![
        // 524287ul
        vec![255, 255, 7, 0, 0, 0, 0, 0],
        // 0.007812
        vec![255, 255, 255, 255, 255, 255, 127, 63],
        // -0
        vec![0, 0, 0, 0, 0, 0, 0, 128],
    ];
    kani::concrete_playback_run(concrete_vals, time_add_sub_roundtrip);
}

#[test]
fn kani_concrete_playback_true_cex() {
    // (648, 1-2^-53) + x - x with x = 1.4375*2^-48 : found by z3 (E2 prototype)
    let f = (1.0f64 - f64::EPSILON / 2.0).to_le_bytes().to_vec();
    let x = (1.4375f64 * 2f64.powi(-48)).to_le_bytes().to_vec();
    let concrete_vals: Vec<Vec<u8>> = vec![vec![136, 2, 0, 0, 0, 0, 0, 0], f, x];
    kani::concrete_playback_run(concrete_vals, time_add_sub_roundtrip);
}
