// @append src/clock.rs
// helper (no harness): lets harnesses in other modules put a real Clock into a symbolic state
impl Clock {
	pub(crate) fn kv_force(&mut self, ticking: bool, ticks: u64, fraction: f64) {
		self.ticking = ticking;
		self.shared.ticking.store(ticking, Ordering::SeqCst);
		self.state = State::Started { ticks, fractional_position: fraction };
	}
	pub(crate) fn kv_force_not_started(&mut self, ticking: bool) {
		self.ticking = ticking;
		self.shared.ticking.store(ticking, Ordering::SeqCst);
		self.state = State::NotStarted;
	}
}
