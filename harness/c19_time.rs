// @append src/clock/time.rs
// C19: clock-time arithmetic. (Float `%` is mis-modelled by Kani 0.68 - always 0.0 - so these
// harnesses are only meaningful on a tree whose ClockTime code does not use it; the driver's
// frem lint refuses to run them otherwise.)

fn kv_clock_ids() -> (ClockId, ClockId) {
	let arena: atomic_arena::Arena<u8> = atomic_arena::Arena::new(2);
	let c = arena.controller();
	let a = ClockId(c.try_reserve().unwrap());
	let b = ClockId(c.try_reserve().unwrap());
	std::mem::forget(arena);
	(a, b)
}

fn kv_time(clock: ClockId) -> ClockTime {
	let ticks: u64 = kani::any();
	let fraction: f64 = kani::any();
	kani::assume(ticks <= (1u64 << 53));
	kani::assume(fraction >= 0.0 && fraction < 1.0);
	ClockTime { clock, ticks, fraction }
}

// @h prop=C19 tier=quick kind=main
// @bounds ticks <= 2^53, fraction in [0,1), 0 <= x <= 2^53 (all f64 bit patterns in range)
// @funcs <ClockTime as Add<f64>>::add
// @catches carry computed from a different rounding than the fraction; fraction leaving [0,1)
#[kani::proof]
#[kani::unwind(3)]
fn c19_clocktime_add_f64() {
	let (id, _) = kv_clock_ids();
	let t = kv_time(id);
	let x: f64 = kani::any();
	kani::assume(x >= 0.0 && x <= 9007199254740992.0);
	let r = t + x;
	assert!(r.fraction >= 0.0 && r.fraction < 1.0, "fraction stays in [0,1)");
	let s = t.fraction + x;
	assert!(r.ticks == t.ticks + (s.trunc() as u64) && r.fraction == s.fract());
	assert!(r.ticks >= t.ticks);
	assert!(r.clock == t.clock);
	kani::cover!(x > 0.0 && x < 1.0 && r.ticks == t.ticks + 1, "w:carry");
	kani::cover!(x > 0.0 && r.ticks == t.ticks, "w:no-carry");
}

// @h prop=C19 tier=quick kind=main
// @bounds ticks <= 2^53, fraction in [0,1), 0 <= x <= 2^53
// @funcs <ClockTime as Sub<f64>>::sub
// @catches fraction leaving [0,1); subtraction wrapping below zero; result later than the original
#[kani::proof]
#[kani::unwind(3)]
fn c19_clocktime_sub_f64_range() {
	let (id, _) = kv_clock_ids();
	let t = kv_time(id);
	let x: f64 = kani::any();
	kani::assume(x >= 0.0 && x <= 9007199254740992.0);
	let r = t - x;
	assert!(r.fraction >= 0.0 && r.fraction < 1.0, "fraction stays in [0,1)");
	assert!(r.ticks <= t.ticks, "never wraps below zero / never later than the original ticks");
	if x == 0.0 { assert!(r.ticks == t.ticks && r.fraction == t.fraction); }
	if x <= t.fraction { assert!(r.ticks == t.ticks && r.fraction == t.fraction - x, "no borrow when the fraction suffices"); }
	kani::cover!(x > t.fraction && x < 1.0 && t.ticks > 0, "w:borrow-one");
	kani::cover!(x > 2.0 && t.ticks == 1, "w:saturate");
}

// @h prop=C19 tier=quick kind=main timeout=280
// @bounds ticks in [2^11, 2^40], fraction in [0,1), 0 <= x <= 1024; "to rounding" = the result, read as ticks+fraction, is within 2^-40 ticks of the exact value
// @funcs <ClockTime as Sub<f64>>::sub
// @catches F14: borrow and fraction derived from differently rounded expressions (off by one whole tick)
#[kani::proof]
#[kani::unwind(3)]
fn c19_clocktime_sub_f64_consistent() {
	let (id, _) = kv_clock_ids();
	let t = kv_time(id);
	let x: f64 = kani::any();
	kani::assume(t.ticks >= 2048 && t.ticks <= (1u64 << 40));
	kani::assume(x >= 0.0 && x <= 1024.0);
	let r = t - x;
	// exact reference: split x into whole and fractional parts (both exact in f64)
	let xw = x.trunc();
	let xf = x - xw; // exact
	// exact value = (t.ticks - xw) + (t.fraction - xf), with t.fraction - xf in (-1, 1) computed to 1/2 ulp
	let d = t.fraction - xf;
	let (want_ticks, want_frac) = if d >= 0.0 { (t.ticks - xw as u64, d) } else { (t.ticks - xw as u64 - 1, d + 1.0) };
	let eps = 9.094947017729282e-13; // 2^-40
	// compare as (ticks, fraction) allowing the representation to sit on either side of a tick boundary
	let ok_same = r.ticks == want_ticks && (r.fraction - want_frac).abs() <= eps;
	let ok_up = r.ticks == want_ticks + 1 && r.fraction <= eps && want_frac >= 1.0 - eps;
	let ok_down = r.ticks + 1 == want_ticks && want_frac <= eps && r.fraction >= 1.0 - eps;
	assert!(ok_same || ok_up || ok_down, "t - x equals the exact difference to rounding");
	kani::cover!(d < 0.0, "w:borrow");
	kani::cover!(ok_up, "w:rounds-up-to-next-tick");
}

// @h prop=C19 tier=quick kind=main timeout=280
// @bounds ticks <= 2^40, fraction in [0,1), 0 <= x <= 1024; round trip (t + x) - x
// @funcs <ClockTime as Add<f64>>::add, <ClockTime as Sub<f64>>::sub
// @catches F14: (648, 1-2^-53) + 5.1e-15 - 5.1e-15 = (648, 0.0)
#[kani::proof]
#[kani::unwind(3)]
fn c19_clocktime_add_sub_roundtrip() {
	let (id, _) = kv_clock_ids();
	let t = kv_time(id);
	let x: f64 = kani::any();
	kani::assume(t.ticks <= (1u64 << 40));
	kani::assume(x >= 0.0 && x <= 1024.0);
	let r = (t + x) - x;
	let eps = 9.094947017729282e-13; // 2^-40
	let ok_same = r.ticks == t.ticks && (r.fraction - t.fraction).abs() <= eps;
	let ok_up = r.ticks == t.ticks + 1 && r.fraction <= eps && t.fraction >= 1.0 - eps;
	let ok_down = r.ticks + 1 == t.ticks && t.fraction <= eps && r.fraction >= 1.0 - eps;
	assert!(ok_same || ok_up || ok_down, "(t + x) - x returns t to rounding");
	kani::cover!(x > 0.5 && r.ticks == t.ticks && r.fraction == t.fraction, "w:exact-roundtrip");
}

// @h prop=C19 tier=quick kind=main
// @bounds all u64 tick counts and amounts; fraction in [0,1)
// @funcs <ClockTime as Sub<u64>>::sub, <ClockTime as SubAssign<u64>>::sub_assign, <ClockTime as Add<u64>>::add
// @catches F15: underflow of ticks - n
#[kani::proof]
#[kani::unwind(3)]
fn c19_clocktime_sub_u64_saturates() {
	let (id, _) = kv_clock_ids();
	let ticks: u64 = kani::any();
	let fraction: f64 = kani::any();
	kani::assume(fraction >= 0.0 && fraction < 1.0);
	let t = ClockTime { clock: id, ticks, fraction };
	let n: u64 = kani::any();
	let r = t - n;
	assert!(r.ticks == if n > ticks { 0 } else { ticks - n });
	assert!(r.fraction == fraction && r.clock == id);
	let mut m = t;
	m -= n;
	assert!(m.ticks == r.ticks && m.fraction == r.fraction);
	if ticks <= u64::MAX - n {
		let a = t + n;
		assert!(a.ticks == ticks + n && a.fraction == fraction);
		assert!((a - n).ticks == ticks);
	}
	kani::cover!(n > ticks, "w:saturates");
	kani::cover!(n < ticks && n > 0, "w:plain");
}

// @h prop=C19 tier=quick kind=main
// @bounds all u64 ticks, all non-NaN fractions in [0,1); same clock and two different clocks
// @funcs <ClockTime as PartialOrd>::partial_cmp
// @catches comparing fractions before ticks; Some(..) across clocks
#[kani::proof]
#[kani::unwind(3)]
fn c19_clocktime_ordering() {
	let (id, other) = kv_clock_ids();
	let a = ClockTime { clock: id, ticks: kani::any(), fraction: kani::any() };
	let b = ClockTime { clock: id, ticks: kani::any(), fraction: kani::any() };
	kani::assume(a.fraction >= 0.0 && a.fraction < 1.0 && b.fraction >= 0.0 && b.fraction < 1.0);
	let want = if a.ticks < b.ticks { Ordering::Less } else if a.ticks > b.ticks { Ordering::Greater }
		else if a.fraction < b.fraction { Ordering::Less } else if a.fraction > b.fraction { Ordering::Greater } else { Ordering::Equal };
	assert!(a.partial_cmp(&b) == Some(want), "ordering agrees with (ticks, fraction)");
	assert!((a >= b) == (want != Ordering::Less));
	let c = ClockTime { clock: other, ..b };
	assert!(a.partial_cmp(&c).is_none(), "times of different clocks are incomparable");
	assert!(!(a >= c) && !(a < c));
	kani::cover!(a.ticks == b.ticks && a.fraction < b.fraction, "w:same-tick");
	kani::cover!(a.ticks > b.ticks && a.fraction < b.fraction, "w:ticks-dominate");
}

// @h prop=C19 tier=quick kind=main
// @bounds 0 <= x <= 2^53
// @funcs ClockTime::from_ticks_f64, ClockTime::from_ticks_u64
#[kani::proof]
#[kani::unwind(3)]
fn c19_clocktime_from_ticks() {
	let (id, _) = kv_clock_ids();
	let x: f64 = kani::any();
	kani::assume(x >= 0.0 && x <= 9007199254740992.0);
	let t = ClockTime::from_ticks_f64(id, x);
	assert!(t.fraction >= 0.0 && t.fraction < 1.0);
	assert!(t.ticks as f64 + t.fraction == x, "ticks + fraction reproduces the value exactly");
	let n: u64 = kani::any();
	let u = ClockTime::from_ticks_u64(id, n);
	assert!(u.ticks == n && u.fraction == 0.0);
	kani::cover!(t.fraction > 0.0 && t.ticks > 3, "w:fractional");
}
