// @append src/effect/reverb/comb.rs
impl CombFilter { pub(crate) fn kv_len(&self) -> usize { self.buffer.len() } }
