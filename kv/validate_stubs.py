#!/usr/bin/env python3
"""Translation validation of the libm CONTRACT STUBS in harness/lib/libm.rs (DESIGN.md section 2.2).

Every axiom the stubs assume about powf/powi/sqrt/tan/sin/exp/log10 is evaluated against the real libm of this
machine (through numpy, which calls the C library in the matching precision) on boundary-biased samples, and the
constants that some harnesses substitute for libm calls are recomputed. Exit 0 iff no axiom is contradicted.
Run by MANIFEST.setup_cmd.  usage: validate_stubs.py [samples] [seed]
"""
import math
import sys
import numpy as np

N = int(sys.argv[1]) if len(sys.argv) > 1 else 100000
rng = np.random.default_rng(int(sys.argv[2]) if len(sys.argv) > 2 else 1)
bad = []


def check(name, ok, witness):
    if not ok:
        bad.append((name, witness))


def samples(dtype, lo, hi, n):
    """boundary-biased: uniform, log-uniform magnitudes, and the neighbours of special points"""
    u = rng.uniform(lo, hi, n // 2)
    mag = np.exp(rng.uniform(math.log(1e-30), math.log(max(abs(lo), abs(hi), 1e-30)), n // 2)) * rng.choice([-1, 1], n // 2)
    mag = np.clip(mag, lo, hi)
    special = np.array([lo, hi, 0.0, 1.0, -1.0, 0.5, 2.0, -60.0, 12.0] , dtype=np.float64)
    special = special[(special >= lo) & (special <= hi)]
    sp = np.concatenate([special, np.nextafter(special, np.inf), np.nextafter(special, -np.inf)])
    return np.clip(np.concatenate([u, mag, sp]), lo, hi).astype(dtype)


with np.errstate(all="ignore"):
    for dt, name in ((np.float32, "powf32"), (np.float64, "powf64")):
        b = np.abs(samples(dt, 0.0, 100.0, N))
        e = samples(dt, -40.0, 40.0, N)
        k = min(len(b), len(e)); b = b[:k]; e = e[:k]
        r = np.power(b, e)
        check(name + ": pow(x,0)=1", np.all(np.power(b, dt(0)) == 1), None)
        check(name + ": pow(1,y)=1", np.all(np.power(dt(1), e) == 1), None)
        check(name + ": pow(x,1)=x", np.all(np.power(b, dt(1)) == b), None)
        m = (b > 0) & (b != 1) & (e != 0) & np.isfinite(r)
        check(name + ": r>=0", np.all(r[m] >= 0), None)
        up = m & ((b > 1) == (e > 0))
        check(name + ": >=1 when (b>1)==(e>0)", np.all(r[up] >= 1), None)
        check(name + ": <=1 otherwise", np.all(r[m & ~up] <= 1), None)
        check(name + ": pow(+0,y>0)=0", np.all(np.power(dt(0), np.abs(e[e != 0])) == 0), None)
        # monotone in the exponent for a fixed base > 1 (base 10 and 2 are the ones used), and in the base for a fixed exponent
        for base in (10.0, 2.0):
            es = np.sort(samples(dt, -20.0, 20.0, N))
            rs = np.power(dt(base), es)
            check("%s: monotone in e, base %g" % (name, base), np.all(np.diff(rs) >= 0), None)
        for ex in (0.5, 2.0, 3.0, 0.3):
            bs = np.sort(np.abs(samples(dt, 0.0, 1.0, N)))
            rs = np.power(bs, dt(ex))
            check("%s: monotone in b, exponent %g" % (name, ex), np.all(np.diff(rs) >= 0), None)
            check("%s: [0,1]^%g in [0,1]" % (name, ex), np.all((rs >= 0) & (rs <= 1)), None)
        ee = samples(dt, -2.0, 0.0, N)
        check(name + ": 10^e >= 0.0099 on [-2,0)", np.all(np.power(dt(10), ee[ee < 0]) >= 0.0099), None)
        ee3 = samples(dt, -3.0, 0.0, N)
        check(name + ": 10^e >= 0.00099 on [-3,0)", np.all(np.power(dt(10), ee3[ee3 < 0]) >= 0.00099), None)
        ee = samples(dt, 0.0, 1.0, N)
        check(name + ": 10^e <= 10.001 on (0,1]", np.all(np.power(dt(10), ee[ee > 0]) <= 10.001), None)
    # powi (f64, integer exponent): same facts on [0,1]
    xs = np.sort(np.abs(samples(np.float64, 0.0, 1.0, N)))
    for n in (1, 2, 3, 4, 5, 7, 16):
        rs = xs ** n
        check("powi: monotone, n=%d" % n, np.all(np.diff(rs) >= 0), None)
        check("powi: [0,1], n=%d" % n, np.all((rs >= 0) & (rs <= 1)) and 0.0 ** n == 0 and 1.0 ** n == 1, None)
    neg = -np.abs(samples(np.float64, 0.0, 3.0, 1000))
    # sqrt f32
    x = np.abs(samples(np.float32, 0.0, 4.0, N))
    r = np.sqrt(x)
    check("sqrt32: 0,1 fixed", np.sqrt(np.float32(0)) == 0 and np.sqrt(np.float32(1)) == 1, None)
    check("sqrt32: monotone", np.all(np.diff(np.sqrt(np.sort(x))) >= 0), None)
    lt = (x > 0) & (x < 1)
    check("sqrt32: x<=r<1 on (0,1)", np.all((r[lt] >= x[lt]) & (r[lt] < 1) & (r[lt] > 0)), None)
    gt = x > 1
    check("sqrt32: 1<r<=x above 1", np.all((r[gt] <= x[gt]) & (r[gt] > 1)), None)
    # tan on [0, pi/2]
    t = np.sort(np.abs(samples(np.float64, 0.0, math.pi / 2, N)))
    t = t[t <= math.pi / 2]
    r = np.tan(t)
    check("tan: finite, >= x, <= 1.7e16, monotone", np.all(np.isfinite(r) & (r >= t) & (r <= 1.7e16)) and np.all(np.diff(r) >= 0) and math.tan(0.0) == 0, None)
    # sin
    s = samples(np.float64, -100.0, 100.0, N)
    r = np.sin(s)
    check("sin: |r|<=1, odd, sin(0)=0", np.all(np.abs(r) <= 1) and np.all(np.sin(-s) == -r) and math.sin(0.0) == 0, None)
    # exp
    s = np.sort(samples(np.float64, -50.0, 50.0, N))
    r = np.exp(s)
    check("exp: monotone, exp(0)=1, in [0,1] below 0, >=1 above", np.all(np.diff(r) >= 0) and math.exp(0.0) == 1 and np.all(r[s < 0] <= 1) and np.all(r[s < 0] >= 0) and np.all(r[s > 0] >= 1), None)
    # log10 f32
    s = np.sort(np.abs(samples(np.float32, 0.0, 1e30, N)))
    r = np.log10(s)
    check("log10f: monotone, log10(1)=0, log10(0)=-inf, bounds", np.all(np.diff(r[s > 0]) >= 0) and np.log10(np.float32(1)) == 0 and np.isneginf(np.log10(np.float32(0)))
          and np.all(r[(s > 0) & (s < 1)] >= -46) and np.all(r[s > 1] <= 39), None)
    # E2 axiom: |fl(a*w)| <= |a| for |w| <= 1 (binary64)
    a64 = samples(np.float64, -1e300, 1e300, N)
    w64 = samples(np.float64, -1.0, 1.0, N)
    k = min(len(a64), len(w64))
    check("mul64: |a*w| <= |a| for |w| <= 1", np.all(np.abs(a64[:k] * w64[:k]) <= np.abs(a64[:k])), None)
    # constants substituted for libm calls in some harnesses
    check("const tan(pi*1000/48000)", math.tan(math.pi * (1000.0 / 48000.0)) == 0.06554346281523822, math.tan(math.pi * (1000.0 / 48000.0)))
    check("const 10^(+-6/40), tan(pi*500/48000)", 10.0 ** (6 / 40) == 1.4125375446227544 and 10.0 ** (-6 / 40) == 0.7079457843841379 and math.tan(math.pi * (500.0 * (1.0 / 48000.0))) == 0.032736610412972586, (10.0 ** (6 / 40), 10.0 ** (-6 / 40), math.tan(math.pi * (500.0 * (1.0 / 48000.0)))))
    sc = (np.sin(np.float32(math.pi / 8) * np.float32(0.5)), np.cos(np.float32(math.pi / 8) * np.float32(0.5)))
    check("const sin_cos(pi/16) f32", abs(float(sc[0]) - 0.19509032) < 2e-7 and abs(float(sc[1]) - 0.98078528) < 2e-7, sc)

if bad:
    for b in bad:
        print("STUB AXIOM CONTRADICTED:", b)
    sys.exit(1)
print("validate_stubs: all contract-stub axioms hold on %d boundary-biased samples per function" % N)
