// @append src/track/send.rs
// helper (no harness)
impl SendTrack {
	pub(crate) fn kv_new(volume: Decibels, internal_buffer_size: usize) -> Self {
		let (w, r) = crate::command::command_writer_and_reader();
		std::mem::forget(w);
		Self {
			shared: Arc::new(TrackShared::new()),
			volume: Parameter::new(crate::Value::Fixed(volume), Decibels::IDENTITY),
			set_volume_command_reader: r,
			effects: vec![],
			input: vec![Frame::ZERO; internal_buffer_size],
			internal_buffer_size,
		}
	}
	pub(crate) fn kv_input(&self, i: usize) -> Frame { self.input[i] }
}
