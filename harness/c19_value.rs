// @append src/value.rs
// C19 / C17: Mapping::map clamps its input to the input range.
include!(concat!(env!("KV_HARNESS_DIR"), "/lib/libm.rs"));

static mut KV_EA_X: f64 = 0.0;
static mut KV_EA_CALLS: u32 = 0;
static mut KV_EA_R: f64 = 0.0;
fn kv_easing_apply_spy(_e: &Easing, x: f64) -> f64 {
	let r: f64 = kani::any();
	unsafe { KV_EA_X = x; KV_EA_CALLS += 1; KV_EA_R = r; }
	r
}

fn kv_grid(on_grid: bool) -> f64 {
	if on_grid { let k: i8 = kani::any(); k as f64 / 4.0 } else { kani::any() }
}
fn kv_mapping_body(inverted: bool, side: u8) {
	// "beyond the end => amount == 1" needs the solver to derive q >= 1 from n >= d through a 53-bit
	// divider, which does not finish on arbitrary f64; those two harnesses use the grid k/4, |k| <= 128
	let on_grid = side == 1;
	let i0: f64 = kv_grid(on_grid);
	let i1: f64 = kv_grid(on_grid);
	let o0: f64 = kani::any();
	let o1: f64 = kani::any();
	let x: f64 = kv_grid(on_grid);
	kani::assume(i0.is_finite() && i1.is_finite() && (i1 - i0).is_finite());
	kani::assume(if inverted { i0 > i1 } else { i0 < i1 });
	kani::assume(x.is_finite() && (x - i0).is_finite());
	let lo_side = if i0 < i1 { x <= i0 } else { x >= i0 };
	let hi_side = if i0 < i1 { x >= i1 } else { x <= i1 };
	kani::assume(match side { 0 => lo_side, 1 => hi_side, _ => !lo_side && !hi_side });
	// the easing is irrelevant to the symbolic run (recording stand-in); InPowi(2) / OutPowi(2) are used because they
	// tell "clamp then ease" from "ease then clamp" apart in the native replay
	let m = Mapping { input_range: (i0, i1), output_range: (o0, o1), easing: if side == 1 { Easing::OutPowi(2) } else { Easing::InPowi(2) } };
	let y = m.map(x);
	if cfg!(kv_native) {
		// native replay oracle (real arithmetic): clamp, then ease, then interpolate
		let a = ((x - i0) / (i1 - i0)).clamp(0.0, 1.0);
		if side == 0 { assert!(a == 0.0); }
		if side == 1 { assert!(a == 1.0); }
		let want = o0 + (o1 - o0) * m.easing.apply(a);
		assert!(y.to_bits() == want.to_bits() || (y.is_nan() && want.is_nan()), "native: map(x) == interpolate(o0, o1, ease(clamp(amount)))");
		return;
	}
	unsafe {
		assert!(KV_EA_CALLS == 1, "the easing is applied exactly once");
		let a = KV_EA_X;
		assert!(a >= 0.0 && a <= 1.0, "the amount handed to the easing is clamped to [0,1]");
		if side == 0 { assert!(a == 0.0, "inputs at or beyond the start of the input range are clamped to it"); }
		if side == 1 { assert!(a == 1.0, "inputs at or beyond the end of the input range are clamped to it"); }
		assert!(y.to_bits() == <f64 as Tweenable>::interpolate(o0, o1, KV_EA_R).to_bits(), "output = interpolate(output_range.0, output_range.1, eased amount)");
	}
	kani::cover!(x != i0 && x != i1, "w:strictly-off-the-end-points");
}

// @h prop=C19,C17 tier=quick kind=main
// @bounds normal before start: any easing (recording stand-in); all finite f64 inputs on that side; finite non-degenerate input range of finite width; any output range
// @funcs Mapping::map
// @assume Easing::apply replaced by a spy; <f64 as Tweenable>::interpolate by a memoised uninterpreted function
// @catches clamp applied AFTER the easing or dropped; inverted ranges mishandled; output end points swapped
#[kani::proof]
#[kani::unwind(2)]
#[kani::stub(Easing::apply, kv_easing_apply_spy)]
#[kani::stub(<f64 as Tweenable>::interpolate, kv_interp64)]
fn c19_mapping_normal_before_start() { kv_mapping_body(false, 0); }

// @h prop=C19,C17 tier=quick kind=main
// @bounds normal beyond end: any easing (recording stand-in); input, range start and end on the grid k/8 with |k| <= 128 (k/4: 1.6e7 range/input combinations, decided symbolically); any output range
// @funcs Mapping::map
// @assume Easing::apply replaced by a spy; <f64 as Tweenable>::interpolate by a memoised uninterpreted function
// @catches clamp applied AFTER the easing or dropped; inverted ranges mishandled; output end points swapped
#[kani::proof]
#[kani::unwind(2)]
#[kani::stub(Easing::apply, kv_easing_apply_spy)]
#[kani::stub(<f64 as Tweenable>::interpolate, kv_interp64)]
fn c19_mapping_normal_beyond_end() { kv_mapping_body(false, 1); }

// @h prop=C19,C17 tier=quick kind=main
// @bounds normal inside: any easing (recording stand-in); all finite f64 inputs on that side; finite non-degenerate input range of finite width; any output range
// @funcs Mapping::map
// @assume Easing::apply replaced by a spy; <f64 as Tweenable>::interpolate by a memoised uninterpreted function
// @catches clamp applied AFTER the easing or dropped; inverted ranges mishandled; output end points swapped
#[kani::proof]
#[kani::unwind(2)]
#[kani::stub(Easing::apply, kv_easing_apply_spy)]
#[kani::stub(<f64 as Tweenable>::interpolate, kv_interp64)]
fn c19_mapping_normal_inside() { kv_mapping_body(false, 2); }

// @h prop=C19,C17 tier=quick kind=main
// @bounds inverted before start: any easing (recording stand-in); all finite f64 inputs on that side; finite non-degenerate input range of finite width; any output range
// @funcs Mapping::map
// @assume Easing::apply replaced by a spy; <f64 as Tweenable>::interpolate by a memoised uninterpreted function
// @catches clamp applied AFTER the easing or dropped; inverted ranges mishandled; output end points swapped
#[kani::proof]
#[kani::unwind(2)]
#[kani::stub(Easing::apply, kv_easing_apply_spy)]
#[kani::stub(<f64 as Tweenable>::interpolate, kv_interp64)]
fn c19_mapping_inverted_before_start() { kv_mapping_body(true, 0); }

// @h prop=C19,C17 tier=quick kind=main
// @bounds inverted beyond end: any easing (recording stand-in); input, range start and end on the grid k/4 with |k| <= 128; any output range
// @funcs Mapping::map
// @assume Easing::apply replaced by a spy; <f64 as Tweenable>::interpolate by a memoised uninterpreted function
// @catches clamp applied AFTER the easing or dropped; inverted ranges mishandled; output end points swapped
#[kani::proof]
#[kani::unwind(2)]
#[kani::stub(Easing::apply, kv_easing_apply_spy)]
#[kani::stub(<f64 as Tweenable>::interpolate, kv_interp64)]
fn c19_mapping_inverted_beyond_end() { kv_mapping_body(true, 1); }

// @h prop=C19,C17 tier=quick kind=main
// @bounds inverted inside: any easing (recording stand-in); all finite f64 inputs on that side; finite non-degenerate input range of finite width; any output range
// @funcs Mapping::map
// @assume Easing::apply replaced by a spy; <f64 as Tweenable>::interpolate by a memoised uninterpreted function
// @catches clamp applied AFTER the easing or dropped; inverted ranges mishandled; output end points swapped
#[kani::proof]
#[kani::unwind(2)]
#[kani::stub(Easing::apply, kv_easing_apply_spy)]
#[kani::stub(<f64 as Tweenable>::interpolate, kv_interp64)]
fn c19_mapping_inverted_inside() { kv_mapping_body(true, 2); }
