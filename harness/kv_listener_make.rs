// @append src/listener.rs
// helper (no harness)
impl Listener {
	pub(crate) fn kv_at_origin() -> Self {
		let (w, command_readers) = command_writers_and_readers();
		std::mem::forget(w);
		Self { shared: Arc::new(ListenerShared::new()), position: Parameter::new(Value::Fixed(Vec3::ZERO), Vec3::ZERO), orientation: Parameter::new(Value::Fixed(Quat::IDENTITY), Quat::IDENTITY), command_readers }
	}
}
