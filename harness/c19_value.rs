// @append src/value.rs
// C19 / C17: Mapping::map clamps its input to the input range.

// @h prop=C19,C17 tier=quick kind=main
// @bounds Linear easing; all finite f64 inputs, finite non-degenerate (possibly inverted) input ranges with finite width, finite output ranges |v| <= 1e300
// @funcs Mapping::map, <f64 as Tweenable>::interpolate
// @catches clamp applied after the easing or dropped; inverted ranges mishandled; end points swapped
#[kani::proof]
#[kani::unwind(2)]
fn c19_mapping_clamps_input() {
	let i0: f64 = kani::any();
	let i1: f64 = kani::any();
	let o0: f64 = kani::any();
	let o1: f64 = kani::any();
	let x: f64 = kani::any();
	kani::assume(i0.is_finite() && i1.is_finite() && i0 != i1 && (i1 - i0).is_finite());
	kani::assume(x.is_finite() && (x - i0).is_finite());
	kani::assume(o0.abs() <= 1e300 && o1.abs() <= 1e300);
	let m = Mapping { input_range: (i0, i1), output_range: (o0, o1), easing: Easing::Linear };
	let y = m.map(x);
	let lo_side = if i0 < i1 { x <= i0 } else { x >= i0 };
	let hi_side = if i0 < i1 { x >= i1 } else { x <= i1 };
	if lo_side { assert!(y == o0, "inputs at or beyond the start of the range map to output_range.0"); }
	if hi_side { assert!(y == o0 + (o1 - o0), "inputs at or beyond the end of the range map to output_range.1"); }
	let amount = ((x - i0) / (i1 - i0)).clamp(0.0, 1.0);
	assert!(y == o0 + (o1 - o0) * amount);
	assert!(!y.is_nan());
	kani::cover!(i0 > i1 && !lo_side && !hi_side, "w:inverted-inside");
	kani::cover!(i0 < i1 && hi_side, "w:beyond-end");
}
