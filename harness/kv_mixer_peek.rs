// @append src/backend/resources/mixer.rs
// helper (no harness)
impl Mixer {
	pub(crate) fn kv_main_track(&mut self) -> &mut MainTrack { &mut self.main_track }
	pub(crate) fn kv_sub_tracks(&mut self) -> &mut ResourceStorage<Track> { &mut self.sub_tracks }
	pub(crate) fn kv_send_tracks(&mut self) -> &mut ResourceStorage<SendTrack> { &mut self.send_tracks }
}
