#[kani::proof]
fn fp_rem_more() {
	let x = kani::any::<f64>();
	let y = kani::any::<f64>();
	kani::assume(x == 5.5 && y == 2.0);
	let r = x % y;
	kani::cover!(r == 1.5, "sym%sym right");
	kani::cover!(r == 0.0, "sym%sym zero");
	kani::cover!(r == -0.5, "sym%sym ieee-remainder");
	let r2 = x % 2.0;
	kani::cover!(r2 == 1.5, "sym%const right");
	kani::cover!(r2 == 0.0, "sym%const zero");
	let z = kani::any::<f64>();
	kani::assume(z == 1.75);
	let r3 = z % 1.0;
	kani::cover!(r3 == 0.75, "1.75%1 right");
	kani::cover!(r3 == 0.0, "1.75%1 zero");
	kani::cover!(r3 == -0.25, "1.75%1 ieee");
	let w = kani::any::<f32>();
	kani::assume(w == 1.75);
	let r4 = w % 1.0;
	kani::cover!(r4 == 0.75, "f32 right");
	kani::cover!(r4 == 0.0, "f32 zero");
}
