// @append src/sound/static_sound/sound/resampler.rs
// helper (no harness): the source indices currently in the 4-frame window
impl Resampler {
	pub(crate) fn kv_indices(&self) -> [usize; 4] {
		[self.frames[0].frame_index, self.frames[1].frame_index, self.frames[2].frame_index, self.frames[3].frame_index]
	}
	pub(crate) fn kv_frames(&self) -> [Frame; 4] { [self.frames[0].frame, self.frames[1].frame, self.frames[2].frame, self.frames[3].frame] }
	pub(crate) fn kv_time_until_empty(&self) -> usize { self.time_until_empty }
	pub(crate) fn kv_from(w: [(Frame, usize); 4], time_until_empty: usize) -> Self {
		Self { frames: [RecentFrame { frame: w[0].0, frame_index: w[0].1 }, RecentFrame { frame: w[1].0, frame_index: w[1].1 }, RecentFrame { frame: w[2].0, frame_index: w[2].1 }, RecentFrame { frame: w[3].0, frame_index: w[3].1 }], time_until_empty }
	}
}
