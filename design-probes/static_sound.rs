use crate::clock::Clock;
use crate::listener::Listener;
use crate::modulator::Modulator;
use crate::sound::static_sound::StaticSoundSettings;
use atomic_arena::Arena;

fn frames_n(n: usize) -> Arc<[Frame]> {
	// index-coded frames: frame i has value i+1
	let v: Vec<Frame> = (0..n).map(|i| Frame::from_mono((i + 1) as f32)).collect();
	v.into()
}

#[kani::proof]
#[kani::unwind(8)]
fn static_rate1_bit_exact_forward() {
	let clocks: Arena<Clock> = Arena::new(0);
	let modulators: Arena<Box<dyn Modulator>> = Arena::new(0);
	let listeners: Arena<Listener> = Arena::new(0);
	let info = Info::new(&clocks, &modulators, &listeners, None);
	let n: usize = kani::any();
	kani::assume(n >= 1 && n <= 4);
	let start: usize = kani::any();
	kani::assume(start < n);
	let data = StaticSoundData {
		sample_rate: 1,
		frames: frames_n(4),
		settings: StaticSoundSettings::new().start_position(crate::sound::PlaybackPosition::Samples(start)),
		slice: Some((0, n)),
	};
	let (_w, readers) = super::super::command_writers_and_readers();
	let mut sound = StaticSound::new(data, readers);
	let mut out = [Frame::ZERO; 1];
	let mut k = 0usize;
	while k < 6 {
		sound.process(&mut out, 1.0, &info);
		let idx = start + k;
		if idx < n {
			assert!(out[0] == Frame::from_mono((idx + 1) as f32));
			assert!(!sound.finished());
		} else {
			assert!(out[0] == Frame::ZERO);
		}
		k += 1;
	}
	assert!(sound.finished());
}
