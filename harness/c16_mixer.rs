// @append src/backend/resources/mixer.rs
// C16: a sample-rate change must reach every effect, including those of a track that was built
// before the change but is still waiting in the hand-over ring when it happens.
use crate::effect::Effect;
use crate::track::TrackBuilder;
use crate::backend::RendererShared;
use std::sync::Arc;

struct KvRateProbe;
static mut KV_INIT_RATE: u32 = 0;
static mut KV_TOLD_RATE: u32 = 0;
impl Effect for KvRateProbe {
	fn init(&mut self, sample_rate: u32, _internal_buffer_size: usize) { unsafe { KV_INIT_RATE = sample_rate; } }
	fn on_change_sample_rate(&mut self, sample_rate: u32) { unsafe { KV_TOLD_RATE = sample_rate; } }
	fn process(&mut self, _input: &mut [Frame], _dt: f64, _info: &Info) {}
}
struct KvRateProbeBuilder;
impl crate::effect::EffectBuilder for KvRateProbeBuilder {
	type Handle = ();
	fn build(self) -> (Box<dyn Effect>, ()) { (Box::new(KvRateProbe), ()) }
}

// @h prop=C16 tier=experimental kind=finding:F13 timeout=1750
// @bounds deterministic history: add a sub-track (one probe effect, initialised by the caller at rate A=100), change the device rate to B=200 BEFORE the next callback, then the callback picks the track up
// @funcs Mixer::{new,on_change_sample_rate,on_start_processing}, Track::{init_effects,on_change_sample_rate}, ResourceStorage::remove_and_add, ResourceController::insert
// @catches (finding F13) the effect of a track that was queued across a sample-rate change never learning the rate that is in force
#[kani::proof]
#[kani::unwind(3)]
fn c16_track_queued_across_rate_change_learns_the_new_rate() {
	let (mut mixer, mut sub_ctrl, send_ctrl, main_handle) = Mixer::new(1, 0, 100, 1, MainTrackBuilder::new().sound_capacity(0));
	let mut b = TrackBuilder::new().sound_capacity(0).sub_track_capacity(0);
	b.add_effect(KvRateProbeBuilder);
	let (mut track, handle) = b.build(Arc::new(RendererShared::new(100)), 1);
	track.init_effects(100);
	let r = sub_ctrl.insert(track);
	assert!(r.is_ok());
	std::mem::forget(r);
	mixer.on_change_sample_rate(200);
	mixer.on_start_processing();
	let known = unsafe { if KV_TOLD_RATE != 0 { KV_TOLD_RATE } else { KV_INIT_RATE } };
	assert!(known == 200, "every effect processes with the sample rate that is actually in force");
	kani::cover!(true, "w:reached");
	std::mem::forget(mixer); std::mem::forget(sub_ctrl); std::mem::forget(send_ctrl); std::mem::forget(main_handle); std::mem::forget(handle);
}

// @h prop=C11,C02 tier=quick kind=main timeout=900
// @bounds real Mixer (internal buffer 2) with one real SendTrack whose volume tween serves as a stopwatch; Mixer::process asked for a chunk of ONE frame (a remainder chunk)
// @funcs Mixer::process, SendTrack::process
// @catches a send track being run over the whole scratch buffer on a short chunk: its parameters and effects then advance by frames that are never output, and the rendering depends on how callbacks are partitioned
// @requires kv_send_track_peek.rs
// @requires kv_storage_place.rs
// @requires kv_mixer_peek.rs
#[kani::proof]
#[kani::unwind(4)]
fn c11_mixer_renders_send_tracks_with_the_frames_in_the_chunk() {
	use crate::backend::resources::{clocks::Clocks, listeners::Listeners, modulators::Modulators};
	let (mut mixer, sub_ctrl, send_ctrl, main_handle) = Mixer::new(0, 1, 4, 2, MainTrackBuilder::new().sound_capacity(0));
	let mut send = SendTrack::kv_new(crate::Decibels::IDENTITY, 2);
	send.kv_start_stopwatch();
	let key = mixer.kv_send_tracks().kv_place(send);
	let (clocks, a) = Clocks::new(0); let (modulators, b) = Modulators::new(0); let (listeners, c) = Listeners::new(0);
	std::mem::forget(a); std::mem::forget(b); std::mem::forget(c);
	let mut out = [Frame::ZERO; 1];
	mixer.process(&mut out, 0.25, &clocks, &modulators, &listeners);
	let t = mixer.kv_send_tracks().get_mut(key).unwrap().kv_stopwatch();
	assert!(t == Some(0.25), "a send track is given exactly the time of the frames in the chunk");
	kani::cover!(true, "w:reached");
	std::mem::forget(mixer); std::mem::forget(sub_ctrl); std::mem::forget(send_ctrl); std::mem::forget(main_handle);
	std::mem::forget(clocks); std::mem::forget(modulators); std::mem::forget(listeners);
}
